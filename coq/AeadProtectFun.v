(* AeadProtectFun.v — C12 (alias independence), sender side, for the AES-GCM (RFC 7714) path of
   srtp_protect (Aead.protect_aead), and the sender half of the remaining cryptex class of C01:

     protect_aead_fun ss i C pkt      PURE specification of srtp_protect with a GCM key (no buffers, no
                                      alias flag): final session and either the wire octets or the error
                                      status, every early exit of Aead.protect_aead in its order
     protect_aead_oop_fun             the same function with the ONE documented difference of the
                                      out-of-place call: cryptex in use for a packet that has CSRCs is
                                      refused (srtp_err_status_cryptex_err)
     protect_aead_refines             streams without cryptex (RFC 6904 allowed): the monadic model
                                      computes protect_aead_fun in place and out of place, whatever the
                                      destination held; source untouched, no out-of-bounds access
     protect_aead_alias_independent   corollary
     protect_aead_refines_cx          the same for every stream of the class "no cryptex, or cryptex
                                      without header-extension cipher": in place protect_aead_fun, out
                                      of place protect_aead_oop_fun
     protect_aead_oop_fun_eq          when the two functions agree (always, except cryptex in use for a
                                      packet with CSRCs) and what the out-of-place call returns when not
     protect_aead_alias_cx            C12 with its documented exception, on worlds

   Restriction (as in RtpSpecProofs.v): the session holds an explicit stream for the packet's SSRC. *)
From Coq Require Import NArith ZArith List Bool Lia.
From Srtp Require Import XtnProofs CryptexProofs.
From Srtp Require Import Util Constants KeyLimit Rdb Rdbx Icm World Stream Rtp Aead AeadProofs
     MonadLemmas EnvelopeProofs WfProofs BoundsRtcp BoundsRtp LengthProofs RtcpSpec RtpSpec RtpSpecProofs
     RtpRoundTrip RtpXtnApply RtpRefineXtn RtpRoundTripXtn RtpUnprotSpec RtpUnprotProofs RtpRoundTripCryptex
     AeadRoundTripRtp AeadCryptexInplace AeadCryptexRtp.
From Srtp.Crypto Require Import GCM.
Import ListNotations.
Local Open Scope Z_scope.

(* ===================================================================== *)
(* 1. the pure function                                                    *)
(* ===================================================================== *)
(* cryptex (RFC 9335) is applied to this packet *)
Definition cryptex_inuse (st : stream) (pkt : bytes) : bool := s_cryptex st && rtp_conf st && (hdr_x pkt =? 1).

(* what goes on the wire, or the status of the failure (both wire functions fail only for a header
   extension that cannot be parsed once the RTP header has been validated) *)
Definition rtp_aead_wire_r (st : stream) (k : skeys) (est : Z) (pkt : bytes) : bytes + Z :=
  match (if cryptex_inuse st pkt then rtp_aead_cryptex_wire st k est pkt else rtp_aead_wire st k est pkt) with
  | Some wire => inl wire
  | None => inr st_parse_err
  end.

(* oop = false: the function of the session, the MKI index, *out_len and the packet that srtp_protect
   (GCM key) computes when it works in place, and in either mode whenever cryptex is not in use or the
   packet has no CSRC; oop = true: the out-of-place call, which refuses cryptex with CSRCs.
   Exits of Aead.protect_aead that cannot be taken once the header has been validated and *out_len
   checked (len < enc_start; the room check of the cipher) have no counterpart here. *)
Definition protect_aead_fun_gen (oop : bool) (ss : session) (mki_index C : Z) (pkt : bytes) : session * (bytes + Z) :=
  let len := lenZ pkt in
  if negb (validate_rtp pkt len =? st_ok) then (ss, inr (validate_rtp pkt len)) else
  let ssrc := hdr_ssrc pkt in
  match list_get (ss_list ss) ssrc with
  | None => (ss, inr st_no_ctx)
  | Some st0 =>
    let ss1 := dir_session ss ssrc st0 dir_srtp_sender_c in
    let st := dir_stream st0 dir_srtp_sender_c in
    match sender_key_st st mki_index with
    | inr e => (ss1, inr e)
    | inl (ki, k) =>
      match charge_fun ss1 ssrc st ki with
      | (ss2, inr e) => (ss2, inr e)
      | (ss2, inl _) =>
        if C <? len + ak_tag (k_rtp_a k) + s_mki_size st then (ss2, inr st_buffer_small) else
        if s_cryptex st && rtp_conf st && negb (hdr_cc pkt =? 0) && (hdr_x pkt =? 0) then (ss2, inr st_cryptex_err) else
        if oop && (cryptex_inuse st pkt && negb (hdr_cc pkt =? 0)) then (ss2, inr st_cryptex_err) else
        match index_step (charged_stream st ki) (hdr_seq pkt) with
        | inr e => (ss2, inr e)
        | inl (est, st3) =>
          let ss3 := sess_put ss2 ssrc st3 in
          match rtp_aead_wire_r st k est pkt with
          | inr e => (ss3, inr e)
          | inl wire => (ss3, inl wire)
          end
        end
      end
    end
  end.

Definition protect_aead_fun : session -> Z -> Z -> bytes -> session * (bytes + Z) := protect_aead_fun_gen false.
Definition protect_aead_oop_fun : session -> Z -> Z -> bytes -> session * (bytes + Z) := protect_aead_fun_gen true.

(* the point at which the out-of-place call refuses: every check in front has passed (header, stream,
   key by MKI index, key budget, *out_len), cryptex is in use for the packet and the packet has CSRCs;
   the session is the one left by the direction update and the budget charge *)
Definition protect_aead_refusal (ss : session) (mki_index C : Z) (pkt : bytes) : option session :=
  let len := lenZ pkt in
  if negb (validate_rtp pkt len =? st_ok) then None else
  let ssrc := hdr_ssrc pkt in
  match list_get (ss_list ss) ssrc with
  | None => None
  | Some st0 =>
    let ss1 := dir_session ss ssrc st0 dir_srtp_sender_c in
    let st := dir_stream st0 dir_srtp_sender_c in
    match sender_key_st st mki_index with
    | inr e => None
    | inl (ki, k) =>
      match charge_fun ss1 ssrc st ki with
      | (ss2, inr e) => None
      | (ss2, inl _) =>
        if C <? len + ak_tag (k_rtp_a k) + s_mki_size st then None else
        if cryptex_inuse st pkt && negb (hdr_cc pkt =? 0) then Some ss2 else None
      end
    end
  end.

(* WHEN THE TWO MODES AGREE: the out-of-place function is the in-place function except at the refusal
   point, where it returns cryptex_err with the session charged *)
Theorem protect_aead_oop_fun_eq ss i C pkt :
  protect_aead_oop_fun ss i C pkt =
  match protect_aead_refusal ss i C pkt with
  | Some ss2 => (ss2, inr st_cryptex_err)
  | None => protect_aead_fun ss i C pkt
  end.
Proof.
  unfold protect_aead_oop_fun, protect_aead_fun, protect_aead_fun_gen, protect_aead_refusal. cbv zeta.
  destruct (negb (validate_rtp pkt (lenZ pkt) =? st_ok)); [reflexivity|].
  destruct (list_get (ss_list ss) (hdr_ssrc pkt)) as [st0|]; [|reflexivity].
  destruct (sender_key_st _ i) as [[ki k]|e]; [|reflexivity].
  destruct (charge_fun _ _ _ ki) as [ss2 [u|e]]; [|reflexivity].
  destruct (C <? _); [reflexivity|].
  set (st := dir_stream st0 dir_srtp_sender_c).
  destruct (cryptex_inuse st pkt && negb (hdr_cc pkt =? 0)) eqn:EI; cbn [andb]; [|reflexivity].
  (* in use means X = 1: the other cryptex refusal (CSRCs without extension) does not apply *)
  apply andb_true_iff in EI. destruct EI as [EI _]. unfold cryptex_inuse in EI.
  apply andb_true_iff in EI. destruct EI as [_ EX]. apply Z.eqb_eq in EX. rewrite EX.
  change (1 =? 0) with false. rewrite andb_false_r. reflexivity.
Qed.
Print Assumptions protect_aead_oop_fun_eq.

Corollary protect_aead_oop_fun_agree ss i C pkt :
  protect_aead_refusal ss i C pkt = None -> protect_aead_oop_fun ss i C pkt = protect_aead_fun ss i C pkt.
Proof. intros H. rewrite protect_aead_oop_fun_eq, H. reflexivity. Qed.

(* no cryptex, no CSRC or no header extension: never refused *)
Lemma protect_aead_refusal_none ss i C pkt :
  (forall st0, list_get (ss_list ss) (hdr_ssrc pkt) = Some st0 ->
               cryptex_inuse st0 pkt = false \/ hdr_cc pkt = 0) ->
  protect_aead_refusal ss i C pkt = None.
Proof.
  intros H. unfold protect_aead_refusal. cbv zeta.
  destruct (negb (validate_rtp pkt (lenZ pkt) =? st_ok)); [reflexivity|].
  destruct (list_get (ss_list ss) (hdr_ssrc pkt)) as [st0|]; [|reflexivity].
  destruct (sender_key_st _ i) as [[ki k]|e]; [|reflexivity].
  destruct (charge_fun _ _ _ ki) as [ss2 [u|e]]; [|reflexivity].
  destruct (C <? _); [reflexivity|].
  assert (EI : cryptex_inuse (dir_stream st0 dir_srtp_sender_c) pkt = cryptex_inuse st0 pkt).
  { unfold cryptex_inuse, rtp_conf. rewrite dir_stream_rtp_serv.
    destruct (dir_stream_cfg st0 dir_srtp_sender_c) as (_ & _ & _ & ->). reflexivity. }
  rewrite EI. destruct (H st0 eq_refl) as [-> | ->]; [reflexivity|]. rewrite andb_false_r. reflexivity.
Qed.

Lemma cryptex_inuse_dir st want pkt : cryptex_inuse (dir_stream st want) pkt = cryptex_inuse st pkt.
Proof.
  unfold cryptex_inuse, rtp_conf. rewrite dir_stream_rtp_serv.
  destruct (dir_stream_cfg st want) as (_ & _ & _ & ->). reflexivity.
Qed.

Lemma dir_stream_use_mki st want : s_use_mki (dir_stream st want) = s_use_mki st.
Proof. destruct (dir_stream_cfg st want) as (_ & _ & -> & _). reflexivity. Qed.
Lemma dir_stream_enc_xtn st want : s_enc_xtn (dir_stream st want) = s_enc_xtn st.
Proof. unfold dir_stream. destruct (s_dir st =? want); [reflexivity|]. destruct (s_dir st =? dir_unknown_c); reflexivity. Qed.

(* ===================================================================== *)
(* 2. postconditions                                                       *)
(* ===================================================================== *)
Section POST.
Variables (L C : Z) (al : bool) (src d0 pkt : bytes) (ss0 : session).
Notation S := (St L C al src d0).

Definition GQ (oop : bool) i (l : Z) (w : world) : Prop :=
  exists wire, protect_aead_fun_gen oop ss0 i C pkt = (w_s w, inl wire) /\ l = lenZ wire /\
               take (zn l) (b_dst (w_b w)) = wire /\ b_src (w_b w) = src /\ b_oob (w_b w) = false.
Definition GE (oop : bool) i (s : Z) (w : world) : Prop :=
  protect_aead_fun_gen oop ss0 i C pkt = (w_s w, inr s) /\ b_src (w_b w) = src /\ b_oob (w_b w) = false.

Lemma g_exit oop ss D i s w : S ss D w -> protect_aead_fun_gen oop ss0 i C pkt = (ss, inr s) -> GE oop i s w.
Proof. intros (h0 & h1 & h2 & h3 & h4 & h5 & h6 & h7) Hs. unfold GE. rewrite h0. auto. Qed.
End POST.

(* ===================================================================== *)
(* 3. cryptex not in use for the packet (RFC 6904 allowed), both modes     *)
(* ===================================================================== *)
Section TX_PLAIN.
Variables (L C : Z) (al : bool) (src d0 pkt : bytes).
Hypothesis HL : 0 <= L < 9223372036854775808.
Hypothesis HC : 0 <= C < 9223372036854775808.
Hypothesis HD : C <= lenZ d0.
Hypothesis Hpkt : take (zn L) (if al then d0 else src) = pkt.
Hypothesis HLp : lenZ pkt = L.

Notation S := (St L C al src d0).

Ltac norm_b :=
  change (b_len (b_init L C al src d0)) with L;
  change (b_cap (b_init L C al src d0)) with C;
  change (b_alias (b_init L C al src d0)) with al;
  rewrite ?(Hpkt : take (zn L) (cur_src (b_init L C al src d0)) = pkt).

Variable ss0 : session.
Variable st0 : stream.
Hypothesis Hget : list_get (ss_list ss0) (hdr_ssrc pkt) = Some st0.
Hypothesis Hwf : stream_wf st0.
Hypothesis Hnu : cryptex_inuse st0 pkt = false.

Notation GQ := (GQ C src pkt ss0).
Notation GE := (GE C src pkt ss0).

Lemma protect_aead_plain_tri oop i : tri (S ss0 (eq d0)) (protect_aead i) (GQ oop i) (GE oop i).
Proof.
  pose proof (eq_refl (protect_aead_fun_gen oop ss0 i C pkt)) as SPEC. unfold protect_aead_fun_gen at 2 in SPEC.
  cbv zeta in SPEC. rewrite HLp in SPEC.
  unfold protect_aead.
  eapply t_bind; [apply t_get_b0|intros b]. apply t_pure; intros ->.
  cbv beta zeta. norm_b.
  change octets_in_rtp_header_c with 12. change octets_in_rtp_xtn_hdr_c with 4.
  unfold check_st. destruct (validate_rtp pkt L =? st_ok) eqn:EV; cbn [negb] in SPEC.
  2:{ apply t_bind_exit. intros w Hw. exact (g_exit _ _ _ _ _ _ _ _ _ _ _ _ _ Hw SPEC). }
  apply t_bind_ret. pose proof EV as EVb. apply Z.eqb_eq in EV. pose proof (enc0_bounds _ _ EV) as EB.
  rewrite Hget in SPEC. cbv beta iota in SPEC.
  eapply t_bind; [eapply t_lookup_existing; exact Hget|intros r]. apply t_pure; intros ->.
  eapply t_bind; [eapply t_check_direction; exact Hget|intros ?].
  eapply t_bind; [apply t_get_stream_list; apply dir_session_get; exact Hget|intros st]. apply t_pure; intros Est.
  rewrite <- Est in SPEC.
  set (ss1 := dir_session ss0 (hdr_ssrc pkt) st0 dir_srtp_sender_c) in *.
  pose proof (dir_stream_cfg st0 dir_srtp_sender_c) as CF. rewrite <- Est in CF.
  assert (Wst : stream_wf st) by exact (stream_wf_cfg _ _ CF Hwf).
  assert (NU : cryptex_inuse st pkt = false) by (rewrite Est, cryptex_inuse_dir; exact Hnu).
  destruct CF as (CK & _ & CU & CX).
  rewrite keys_by_index_eq. destruct (sender_key_st st i) as [[ki k]|e] eqn:EK.
  2:{ apply t_bind_exit. intros w Hw. exact (g_exit _ _ _ _ _ _ _ _ _ _ _ _ _ Hw SPEC). }
  apply t_bind_ret. cbv beta iota.
  pose proof (sender_key_st_In _ _ _ _ EK) as Hk.
  pose proof (stream_wf_key _ _ Wst Hk) as (MK & TA & _).
  destruct Wst as (M & U & _). rewrite max_mki_value in M.
  pose proof TA as [T _]. rewrite max_tag_value in T.
  (* key usage *)
  eapply t_bind2; [eapply t_charge_key; apply dir_session_get; exact Hget| |intros ?].
  { intros s w (ss' & EC & Hw). rewrite <- Est in EC. rewrite EC in SPEC. exact (g_exit _ _ _ _ _ _ _ _ _ _ _ _ _ Hw SPEC). }
  apply t_ex; intros ss2. apply t_pure; intros EC. apply t_pure; intros Hg2.
  rewrite <- Est in EC, Hg2. rewrite EC in SPEC.
  set (tl := ak_tag (k_rtp_a k)) in *. set (msz := s_mki_size st) in *.
  destruct (C <? L + tl + msz) eqn:E1.
  { apply t_bind_exit. intros w Hw. exact (g_exit _ _ _ _ _ _ _ _ _ _ _ _ _ Hw SPEC). }
  apply t_bind_ret. apply Z.ltb_ge in E1.
  (* cryptex: the refusal of CSRCs without a header extension; not in use otherwise *)
  change (negb (Z.land (s_rtp_serv st) sec_serv_conf_c =? 0)) with (rtp_conf st).
  change (s_cryptex st && rtp_conf st && (hdr_x pkt =? 1)) with (cryptex_inuse st pkt).
  rewrite NU in *. rewrite andb_false_r in SPEC.
  destruct (s_cryptex st && rtp_conf st && negb (hdr_cc pkt =? 0) && (hdr_x pkt =? 0)) eqn:E0.
  { apply t_bind_exit. intros w Hw. exact (g_exit _ _ _ _ _ _ _ _ _ _ _ _ _ Hw SPEC). }
  apply t_bind_ret. cbn [andb negb].
  fold (enc0 pkt). set (es := enc0 pkt) in *. cbv iota. apply t_bind_ret.
  destruct (L <? es) eqn:E2; [apply Z.ltb_lt in E2; lia|]. apply t_bind_ret.
  (* header *)
  eapply t_bind; [apply (header_copy L C al src d0 pkt HD Hpkt HLp); lia|intros ?].
  (* index *)
  eapply t_bind; [apply t_get_stream_list; exact Hg2|intros st2]. apply t_pure; intros ->.
  set (st2 := charged_stream st ki) in *.
  unfold index_step in SPEC.
  destruct (est_index st2 (hdr_seq pkt)) as [[est_st est] delta].
  destruct (negb (est_st =? st_ok) && negb (est_st =? st_pkt_idx_adv)).
  { apply t_bind_exit. intros w Hw. exact (g_exit _ _ _ _ _ _ _ _ _ _ _ _ _ Hw SPEC). }
  apply t_bind_ret.
  apply t_bind with (R := fun _ w =>
    exists st3, (if est_st =? st_pkt_idx_adv then inl (est, commit_advance st2 est)
                 else if negb (rdbx_check (s_rdbx st2) delta =? st_ok) &&
                         (negb (rdbx_check (s_rdbx st2) delta =? st_replay_fail) || negb (s_allow_repeat st2))
                      then inr (rdbx_check (s_rdbx st2) delta)
                      else inl (est, set_pending (set_rdbx st2 (rdbx_add (s_rdbx st2) delta)) 0)) = inl (est, st3) /\
                S (sess_put ss2 (hdr_ssrc pkt) st3) (facts_ok [(0, P0 al pkt es)]) w).
  { destruct (est_st =? st_pkt_idx_adv).
    - eapply t_post; [apply t_put_stream_list|]. intros ? w Hw. eexists. split; [reflexivity|exact Hw].
    - destruct (negb (rdbx_check (s_rdbx st2) delta =? st_ok) &&
                (negb (rdbx_check (s_rdbx st2) delta =? st_replay_fail) || negb (s_allow_repeat st2))).
      + apply t_bind_exit. intros w Hw. exact (g_exit _ _ _ _ _ _ _ _ _ _ _ _ _ Hw SPEC).
      + apply t_bind_ret. eapply t_post; [apply t_put_stream_list|]. intros ? w Hw. eexists. split; [reflexivity|exact Hw]. }
  intros ?. apply t_ex; intros st3. apply t_pure; intros E3. cbv zeta in SPEC. rewrite E3 in SPEC.
  set (ss3 := sess_put ss2 (hdr_ssrc pkt) st3) in *.
  set (iv := aead_rtp_iv (k_salt k) (hdr_ssrc pkt) est).
  set (xiv := xtn_iv (hdr_ssrc pkt) est).
  eapply t_bind; [apply t_log_gcm_iv|intros ?].
  (* the wire function, as far as the checks passed so far allow *)
  unfold rtp_aead_wire_r in SPEC. rewrite NU in SPEC. unfold rtp_aead_wire in SPEC.
  rewrite HLp, EVb in SPEC. cbn [negb] in SPEC. fold xiv iv es tl in SPEC.
  (* RFC 6904 *)
  eapply t_bind; [apply (t_log_xtn L C al src d0)|intros ?].
  eapply t_bind2; [apply (xtn_step_opt L C al src d0 pkt HD Hpkt HLp ss3 st2 (k_xtn_c k) xiv []); [exact EV|lia|constructor]| |intros ?].
  { intros s w (EN & -> & Hw). unfold st2 in EN. rewrite charged_xtn in EN. rewrite EN in SPEC.
    exact (g_exit _ _ _ _ _ _ _ _ _ _ _ _ _ Hw SPEC). }
  apply t_ex; intros p1. apply t_pure; intros EX. fold es.
  unfold st2 in EX. rewrite charged_xtn in EX. rewrite EX in SPEC.
  rewrite <- HLp in EV.
  pose proof (wire_xtn_shape _ _ _ _ _ EV EX) as (SL & _ & _ & _ & SD). rewrite HLp in SL. fold es in SD.
  apply t_bind_ret.
  (* AAD from the output, payload from the input *)
  assert (LP0 : lenZ (P0 al p1 es) = if al then L else es) by (apply P0_len'; [exact SL|lia]).
  eapply t_bind; [apply t_rd_dst; [lia|lia|destruct al; lia]|intros aad]. apply t_pure; intros (dd & Hf & _ & ->).
  rewrite (fact0_read dd _ _ _ (Forall_inv Hf)) by (unfold lenZ, zn in *; destruct al; lia).
  rewrite P0_slice' by (unfold zn; lia). change (zn 0) with O. rewrite slice_0.
  eapply t_bind; [apply (rd_p1 L C al src d0 pkt Hpkt); [exact SL|exact SD|lia|lia|lia]|intros d]. apply t_pure; intros ->.
  replace (slice (zn es) (zn (L - es)) p1) with (drop (zn es) pkt)
    by (rewrite <- SD; symmetry; apply slice_to_end; unfold lenZ, zn in *; lia).
  assert (LDr : lenZ (drop (zn es) pkt) = L - es) by (unfold lenZ, zn in *; rewrite drop_length; lia).
  rewrite gcm_seal_ok by lia. fold tl iv.
  remember (gcm_encrypt (ck_rks (k_rtp_c k)) iv (take (zn es) p1) (drop (zn es) pkt) (zn tl)) as ge eqn:EG in *.
  destruct ge as [ct tag]. symmetry in EG. pose proof (gcm_encrypt_length _ _ _ _ _ _ _ EG) as [LG1 LG2].
  set (o := ct ++ tag) in *.
  assert (LO : lenZ o = L - es + tl) by (subst o; unfold lenZ, zn in *; rewrite app_length; lia).
  change (negb (st_ok =? st_ok)) with false. cbv iota.
  assert (LT : lenZ (take (zn es) p1) = es) by (unfold lenZ, zn in *; rewrite take_length; lia).
  eapply t_bind; [apply (t_wr_tail L C al src d0 HD); [destruct al; lia|lia]|intros ?].
  replace (take (zn es) (P0 al p1 es)) with (take (zn es) p1)
    by (unfold P0; destruct al; [reflexivity|]; rewrite take_take; f_equal; lia).
  (* MKI *)
  set (mki := if s_use_mki st then k_mki k else []) in *.
  assert (LM : lenZ mki = msz).
  { subst mki. destruct (s_use_mki st); [exact MK|]. rewrite (U eq_refl). reflexivity. }
  apply t_bind with (R := fun _ => S ss3 (facts_ok [(0, (take (zn es) p1 ++ o) ++ mki)])).
  { replace (s_use_mki st2) with (s_use_mki st) by (unfold st2; rewrite charged_umki; reflexivity).
    subst mki. destruct (s_use_mki st) eqn:EU.
    - replace (es + lenZ o) with (lenZ (take (zn es) p1 ++ o)) by (rewrite lenZ_app; lia).
      apply t_wr_append; [exact HD|rewrite lenZ_app; lia|constructor].
    - apply t_ret. intros w Hw. rewrite app_nil_r. exact Hw. }
  intros ?. apply t_bind_ret.
  apply t_ret. intros w (h0 & h1 & h2 & h3 & h4 & h5 & h6 & h7).
  exists ((take (zn es) p1 ++ o) ++ mki). rewrite h0.
  split; [rewrite SPEC, <- app_assoc; reflexivity|].
  assert (LW : lenZ ((take (zn es) p1 ++ o) ++ mki) = L + tl + msz) by (rewrite !lenZ_app; lia).
  replace (es + lenZ o + s_mki_size st2) with (lenZ ((take (zn es) p1 ++ o) ++ mki))
    by (unfold st2; rewrite charged_mki; fold msz; lia).
  rewrite u64_small by lia. split; [reflexivity|]. split; [|auto].
  rewrite zn_len. pose proof (fact_get _ _ 0 _ h7 ltac:(left; reflexivity)) as F.
  change (zn 0) with O in F. rewrite slice_0 in F. exact F.
Qed.
End TX_PLAIN.

(* ===================================================================== *)
(* 4. cryptex in use, no header-extension cipher, IN PLACE, any CSRC count *)
(* ===================================================================== *)
Section TX_CX_INPLACE.
Variables (L C : Z) (src d0 pkt : bytes).
Hypothesis HL : 0 <= L < 9223372036854775808.
Hypothesis HC : 0 <= C < 9223372036854775808.
Hypothesis HD : C <= lenZ d0.
Hypothesis Hpkt : take (zn L) d0 = pkt.
Hypothesis HLp : lenZ pkt = L.

Notation S := (St L C true src d0).

Ltac norm_b :=
  change (b_len (b_init L C true src d0)) with L;
  change (b_cap (b_init L C true src d0)) with C;
  change (b_alias (b_init L C true src d0)) with true;
  rewrite ?(Hpkt : take (zn L) (cur_src (b_init L C true src d0)) = pkt).

Variable ss0 : session.
Variable st0 : stream.
Hypothesis Hget : list_get (ss_list ss0) (hdr_ssrc pkt) = Some st0.
Hypothesis Hwf : stream_wf st0.
Hypothesis Hcx : s_cryptex st0 = true.
Hypothesis Hconf : rtp_conf st0 = true.
Hypothesis HX : hdr_x pkt = 1.
Hypothesis Hxk : forall k, In k (s_keys st0) -> k_xtn_c k = None.

Notation GQ := (GQ C src pkt ss0).
Notation GE := (GE C src pkt ss0).

Lemma protect_aead_cx_inplace_tri i : tri (S ss0 (eq d0)) (protect_aead i) (GQ false i) (GE false i).
Proof.
  pose proof (eq_refl (protect_aead_fun_gen false ss0 i C pkt)) as SPEC. unfold protect_aead_fun_gen at 2 in SPEC.
  cbv zeta in SPEC. rewrite HLp in SPEC. cbn [andb] in SPEC.
  unfold protect_aead.
  eapply t_bind; [apply t_get_b0|intros b]. apply t_pure; intros ->.
  cbv beta zeta. norm_b.
  change octets_in_rtp_header_c with 12. change octets_in_rtp_xtn_hdr_c with 4.
  unfold check_st. destruct (validate_rtp pkt L =? st_ok) eqn:EV; cbn [negb] in SPEC.
  2:{ apply t_bind_exit. intros w Hw. exact (g_exit _ _ _ _ _ _ _ _ _ _ _ _ _ Hw SPEC). }
  apply t_bind_ret. pose proof EV as EVb. apply Z.eqb_eq in EV.
  pose proof (validate_rtp_ok _ _ EV) as (V1 & V2 & V3). specialize (V3 HX).
  pose proof (hdr_cc_range pkt) as CC. pose proof (hdr_len_eq pkt) as HLn. pose proof (xtn_len_ge pkt) as XL.
  rewrite Hget in SPEC. cbv beta iota in SPEC.
  eapply t_bind; [eapply t_lookup_existing; exact Hget|intros r]. apply t_pure; intros ->.
  eapply t_bind; [eapply t_check_direction; exact Hget|intros ?].
  eapply t_bind; [apply t_get_stream_list; apply dir_session_get; exact Hget|intros st]. apply t_pure; intros Est.
  rewrite <- Est in SPEC.
  set (ss1 := dir_session ss0 (hdr_ssrc pkt) st0 dir_srtp_sender_c) in *.
  pose proof (dir_stream_cfg st0 dir_srtp_sender_c) as CF. rewrite <- Est in CF.
  assert (Wst : stream_wf st) by exact (stream_wf_cfg _ _ CF Hwf).
  destruct CF as (CK & _ & CU & CX). rewrite Hcx in CX.
  assert (CS : s_rtp_serv st = s_rtp_serv st0) by (rewrite Est; apply dir_stream_rtp_serv).
  assert (CONF : rtp_conf st = true) by (unfold rtp_conf in *; rewrite CS; exact Hconf).
  assert (IU : cryptex_inuse st pkt = true).
  { unfold cryptex_inuse. rewrite CX, CONF, HX. reflexivity. }
  rewrite keys_by_index_eq. destruct (sender_key_st st i) as [[ki k]|e] eqn:EK.
  2:{ apply t_bind_exit. intros w Hw. exact (g_exit _ _ _ _ _ _ _ _ _ _ _ _ _ Hw SPEC). }
  apply t_bind_ret. cbv beta iota.
  pose proof (sender_key_st_In _ _ _ _ EK) as Hk.
  pose proof (stream_wf_key _ _ Wst Hk) as (MK & TA & _).
  assert (XK : k_xtn_c k = None) by (apply Hxk; rewrite <- CK; exact Hk).
  destruct Wst as (Mb & U & _). rewrite max_mki_value in Mb.
  pose proof TA as [T _]. rewrite max_tag_value in T.
  eapply t_bind2; [eapply t_charge_key; apply dir_session_get; exact Hget| |intros ?].
  { intros s w (ss' & EC & Hw). rewrite <- Est in EC. rewrite EC in SPEC. exact (g_exit _ _ _ _ _ _ _ _ _ _ _ _ _ Hw SPEC). }
  apply t_ex; intros ss2. apply t_pure; intros EC. apply t_pure; intros Hg2.
  rewrite <- Est in EC, Hg2. rewrite EC in SPEC.
  set (tl := ak_tag (k_rtp_a k)) in *. set (msz := s_mki_size st) in *.
  destruct (C <? L + tl + msz) eqn:E1.
  { apply t_bind_exit. intros w Hw. exact (g_exit _ _ _ _ _ _ _ _ _ _ _ _ _ Hw SPEC). }
  apply t_bind_ret. apply Z.ltb_ge in E1.
  (* cryptex is in use, in place: the encrypted portion starts at 16 *)
  change (negb (Z.land (s_rtp_serv st) sec_serv_conf_c =? 0)) with (rtp_conf st).
  rewrite CX, CONF, HX in *. cbn [andb negb Z.eqb Pos.eqb] in *.
  rewrite andb_false_r in *. apply t_bind_ret.
  assert (ES16 : u64 (u64 (hdr_len pkt + xtn_len pkt - (xtn_len pkt - 4)) - hdr_cc pkt * 4) = 16).
  { rewrite (u64_small (hdr_len pkt + xtn_len pkt - (xtn_len pkt - 4))) by lia. rewrite u64_small by lia. lia. }
  rewrite ES16. apply t_bind_ret.
  destruct (L <? 16) eqn:E2; [apply Z.ltb_lt in E2; lia|]. apply t_bind_ret.
  apply t_bind_ret.
  apply t_weaken with (D' := facts_ok [(0, pkt)]).
  { intros dd _ <-. constructor; [|constructor]. split; [cbn [fst]; lia|]. cbn [fst snd].
    replace (length pkt) with (zn L) by (unfold lenZ, zn in *; lia). exact Hpkt. }
  (* index *)
  eapply t_bind; [apply t_get_stream_list; exact Hg2|intros st2]. apply t_pure; intros ->.
  set (st2 := charged_stream st ki) in *.
  unfold index_step in SPEC.
  destruct (est_index st2 (hdr_seq pkt)) as [[est_st est] delta].
  destruct (negb (est_st =? st_ok) && negb (est_st =? st_pkt_idx_adv)).
  { apply t_bind_exit. intros w Hw. exact (g_exit _ _ _ _ _ _ _ _ _ _ _ _ _ Hw SPEC). }
  apply t_bind_ret.
  apply t_bind with (R := fun _ w =>
    exists st3, (if est_st =? st_pkt_idx_adv then inl (est, commit_advance st2 est)
                 else if negb (rdbx_check (s_rdbx st2) delta =? st_ok) &&
                         (negb (rdbx_check (s_rdbx st2) delta =? st_replay_fail) || negb (s_allow_repeat st2))
                      then inr (rdbx_check (s_rdbx st2) delta)
                      else inl (est, set_pending (set_rdbx st2 (rdbx_add (s_rdbx st2) delta)) 0)) = inl (est, st3) /\
                S (sess_put ss2 (hdr_ssrc pkt) st3) (facts_ok [(0, pkt)]) w).
  { destruct (est_st =? st_pkt_idx_adv).
    - eapply t_post; [apply t_put_stream_list|]. intros ? w Hw. eexists. split; [reflexivity|exact Hw].
    - destruct (negb (rdbx_check (s_rdbx st2) delta =? st_ok) &&
                (negb (rdbx_check (s_rdbx st2) delta =? st_replay_fail) || negb (s_allow_repeat st2))).
      + apply t_bind_exit. intros w Hw. exact (g_exit _ _ _ _ _ _ _ _ _ _ _ _ _ Hw SPEC).
      + apply t_bind_ret. eapply t_post; [apply t_put_stream_list|]. intros ? w Hw. eexists. split; [reflexivity|exact Hw]. }
  intros ?. apply t_ex; intros st3. apply t_pure; intros E3. cbv zeta in SPEC. rewrite E3 in SPEC.
  set (ss3 := sess_put ss2 (hdr_ssrc pkt) st3) in *.
  set (iv := aead_rtp_iv (k_salt k) (hdr_ssrc pkt) est) in *.
  eapply t_bind; [apply t_log_gcm_iv|intros ?].
  rewrite XK. apply t_bind_ret. apply t_bind_ret.
  (* the wire function *)
  unfold rtp_aead_wire_r in SPEC. rewrite IU in SPEC. unfold rtp_aead_cryptex_wire in SPEC.
  rewrite HLp, EVb in SPEC. cbn [negb] in SPEC. cbv zeta in SPEC. fold iv tl in SPEC.
  (* the profile *)
  set (hl := hdr_len pkt) in *. set (n := zn (4 * hdr_cc pkt)) in *.
  assert (ZH : zn hl = (12 + n)%nat) by (subst n; unfold zn; lia).
  apply t_assoc. eapply t_bind; [apply t_rd_dst; lia|intros h]. apply t_pure; intros (dd & Hf & _ & ->).
  rewrite (fact0_read dd pkt _ _ (Forall_inv Hf)) by (unfold lenZ, zn in *; lia).
  change (zn 2) with 2%nat. rewrite RtpUnprotProofs.be16_slice2_0. cbv zeta.
  assert (EQP : forall (f : Z -> M unit) (e : M unit),
            (if be16 pkt (zn hl) =? xtn_hdr_one_byte_profile_c then f cryptex_one_byte_profile_c
             else if be16 pkt (zn hl) =? xtn_hdr_two_byte_profile_c then f cryptex_two_byte_profile_c else e)
            = match cryptex_profile_of (be16 pkt (zn hl)) with Some v => f v | None => e end).
  { intros f e. unfold cryptex_profile_of. destruct (_ =? xtn_hdr_one_byte_profile_c); [reflexivity|].
    destruct (_ =? xtn_hdr_two_byte_profile_c); reflexivity. }
  rewrite (EQP (set_profile pkt) (exit_with st_parse_err)).
  destruct (cryptex_profile_of (be16 pkt (zn hl))) as [v|] eqn:PV.
  2:{ apply t_bind_exit. intros w Hw. exact (g_exit _ _ _ _ _ _ _ _ _ _ _ _ _ Hw SPEC). }
  set (vb := be_bytes 2 (Z.to_N v)) in *.
  assert (LV : lenZ vb = 2) by (subst vb; rewrite lenZ_be_bytes; reflexivity).
  set (p2 := splice (zn hl) vb pkt) in *.
  assert (LP2 : lenZ p2 = L) by (subst p2; rewrite lenZ_splice; exact HLp).
  apply t_assoc. eapply t_bind; [unfold set_profile; fold hl vb; apply t_wr_in2; [lia|lia|lia|constructor]|intros ?].
  fold p2.
  eapply t_bind; [apply (t_adjust L C true src d0 pkt HD); fold hl; lia|intros ?].
  fold n.
  assert (Lp2n : (12 + n + 4 <= length p2)%nat) by (unfold lenZ, zn in *; subst n; unfold zn; lia).
  set (Hh := take 12 p2) in *. set (X := slice (zn hl) 4 p2) in *. set (Cs := slice 12 n p2) in *. set (Tt := drop (zn (hl + 4)) p2) in *.
  assert (ZH4 : zn (hl + 4) = (12 + n + 4)%nat) by (subst n; unfold zn; lia).
  destruct (cxp_len n p2 Lp2n) as (L1 & L2 & L3 & L4).
  pose proof (adjust_dst_length n p2) as LAD.
  (* AAD and payload from the shuffled block *)
  eapply t_bind; [apply t_rd_dst; [lia|lia|unfold lenZ in *; lia]|intros aad]. apply t_pure; intros (dd2 & Hf2 & _ & ->).
  rewrite (fact0_read dd2 _ _ _ (Forall_inv Hf2)) by (unfold lenZ, zn in *; lia).
  change (zn 0) with O. change (zn 16) with 16%nat. rewrite slice_0, (cxp_adjust_take n p2 Lp2n).
  rewrite <- ZH. fold Hh X.
  eapply t_bind; [apply (rd_alias L C src d0 pkt); [lia|lia|lia|unfold lenZ in *; lia]|intros d]. apply t_pure; intros ->.
  replace (slice (zn 16) (zn (L - 16)) (adjust_dst n p2)) with (Cs ++ Tt).
  2:{ change (zn 16) with 16%nat. rewrite slice_to_end by (unfold lenZ, zn in *; lia).
      rewrite (cxp_adjust_drop n p2 Lp2n). subst Cs Tt. rewrite ZH4. reflexivity. }
  assert (LPT : lenZ (Cs ++ Tt) = L - 16).
  { subst Cs Tt. rewrite lenZ_app. unfold lenZ in *. rewrite ZH4, L2, L4. lia. }
  rewrite gcm_seal_ok by lia. fold tl iv.
  remember (gcm_encrypt (ck_rks (k_rtp_c k)) iv (Hh ++ X) (Cs ++ Tt) (zn tl)) as ge eqn:EG in *.
  destruct ge as [ct tag]. symmetry in EG. pose proof (gcm_encrypt_length _ _ _ _ _ _ _ EG) as [LG1 LG2].
  set (o := ct ++ tag) in *.
  assert (LCT : lenZ ct = L - 16) by (unfold lenZ in *; lia).
  assert (LTG : lenZ tag = tl) by (unfold lenZ, zn in *; lia).
  assert (LO : lenZ o = L - 16 + tl) by (subst o; rewrite lenZ_app; lia).
  change (negb (st_ok =? st_ok)) with false. cbv iota.
  eapply t_bind; [apply (t_wr_tail L C true src d0 HD); [unfold lenZ in *; lia|lia]|intros ?].
  change (zn 16) with 16%nat. rewrite (cxp_adjust_take n p2 Lp2n). rewrite <- ZH. fold Hh X.
  (* MKI *)
  set (mki := if s_use_mki st then k_mki k else []) in *.
  assert (LM : lenZ mki = msz).
  { subst mki. destruct (s_use_mki st); [exact MK|]. rewrite (U eq_refl). reflexivity. }
  assert (LHX : lenZ (Hh ++ X) = 16) by (rewrite lenZ_app; subst Hh X; unfold lenZ; rewrite L1, ZH, L3; reflexivity).
  apply t_bind with (R := fun _ => S ss3 (facts_ok [(0, ((Hh ++ X) ++ o) ++ mki)])).
  { replace (s_use_mki st2) with (s_use_mki st) by (unfold st2; rewrite charged_umki; reflexivity).
    subst mki. destruct (s_use_mki st) eqn:EU.
    - replace (16 + lenZ o) with (lenZ ((Hh ++ X) ++ o)) by (rewrite lenZ_app; lia).
      apply t_wr_append; [exact HD|rewrite lenZ_app; lia|constructor].
    - apply t_ret. intros w Hw. rewrite app_nil_r. exact Hw. }
  intros ?.
  (* the shuffle is undone *)
  eapply t_bind; [apply (t_restore L C true src d0 pkt HD); fold hl;
                  [rewrite (lenZ_app ((Hh ++ X) ++ o)), (lenZ_app (Hh ++ X)); lia|lia]|intros ?].
  fold n. rewrite <- (app_assoc (Hh ++ X) o mki).
  subst Hh X. rewrite ZH in *. rewrite (cxp_restore n p2 Lp2n) by (subst o; rewrite app_length; unfold lenZ, zn in *; subst n; unfold zn; lia).
  set (Hh := take 12 p2) in *. set (X := slice (12 + n) 4 p2) in *.
  assert (TO : take n o = take n ct).
  { subst o. apply CryptexProofs.take_app_le. unfold lenZ, zn in *. subst n. unfold zn. lia. }
  assert (DO : drop n o = drop n ct ++ tag).
  { subst o. apply CryptexProofs.drop_app_le. unfold lenZ, zn in *. subst n. unfold zn. lia. }
  rewrite TO, DO.
  apply t_ret. intros w (h0 & h1 & h2 & h3 & h4 & h5 & h6 & h7).
  exists (Hh ++ take n ct ++ X ++ (drop n ct ++ tag) ++ mki). rewrite h0.
  split; [rewrite SPEC, <- app_assoc; reflexivity|].
  assert (LW : lenZ (Hh ++ take n ct ++ X ++ (drop n ct ++ tag) ++ mki) = L + tl + msz).
  { rewrite !lenZ_app. subst Hh X. unfold lenZ in *. rewrite L1, L3, take_length, drop_length.
    subst n. unfold zn in *. lia. }
  replace (16 + lenZ o + s_mki_size st2) with (lenZ (Hh ++ take n ct ++ X ++ (drop n ct ++ tag) ++ mki))
    by (unfold st2; rewrite charged_mki; fold msz; lia).
  rewrite u64_small by lia. split; [reflexivity|]. split; [|auto].
  rewrite zn_len. pose proof (fact_get _ _ 0 _ h7 ltac:(left; reflexivity)) as F.
  change (zn 0) with O in F. rewrite slice_0 in F. exact F.
Qed.
End TX_CX_INPLACE.

(* ===================================================================== *)
(* 5. cryptex in use, no header-extension cipher, OUT OF PLACE              *)
(* ===================================================================== *)
Section TX_CX_OOP.
Variables (L C : Z) (src d0 pkt : bytes).
Hypothesis HL : 0 <= L < 9223372036854775808.
Hypothesis HC : 0 <= C < 9223372036854775808.
Hypothesis HD : C <= lenZ d0.
Hypothesis Hpkt : take (zn L) src = pkt.
Hypothesis HLp : lenZ pkt = L.

Notation S := (St L C false src d0).

Ltac norm_b :=
  change (b_len (b_init L C false src d0)) with L;
  change (b_cap (b_init L C false src d0)) with C;
  change (b_alias (b_init L C false src d0)) with false;
  rewrite ?(Hpkt : take (zn L) (cur_src (b_init L C false src d0)) = pkt).

Variable ss0 : session.
Variable st0 : stream.
Hypothesis Hget : list_get (ss_list ss0) (hdr_ssrc pkt) = Some st0.
Hypothesis Hwf : stream_wf st0.
Hypothesis Hcx : s_cryptex st0 = true.
Hypothesis Hconf : rtp_conf st0 = true.
Hypothesis HX : hdr_x pkt = 1.

Notation GQ := (GQ C src pkt ss0).
Notation GE := (GE C src pkt ss0).

(* 5a. the packet has CSRCs: the documented refusal *)
Lemma protect_aead_cx_oop_refusal_tri i :
  hdr_cc pkt <> 0 -> tri (S ss0 (eq d0)) (protect_aead i) (GQ true i) (GE true i).
Proof.
  intros HCC.
  pose proof (eq_refl (protect_aead_fun_gen true ss0 i C pkt)) as SPEC. unfold protect_aead_fun_gen at 2 in SPEC.
  cbv zeta in SPEC. rewrite HLp in SPEC. cbn [andb] in SPEC.
  unfold protect_aead.
  eapply t_bind; [apply t_get_b0|intros b]. apply t_pure; intros ->.
  cbv beta zeta. norm_b.
  change octets_in_rtp_header_c with 12. change octets_in_rtp_xtn_hdr_c with 4.
  unfold check_st. destruct (validate_rtp pkt L =? st_ok) eqn:EV; cbn [negb] in SPEC.
  2:{ apply t_bind_exit. intros w Hw. exact (g_exit _ _ _ _ _ _ _ _ _ _ _ _ _ Hw SPEC). }
  apply t_bind_ret.
  rewrite Hget in SPEC. cbv beta iota in SPEC.
  eapply t_bind; [eapply t_lookup_existing; exact Hget|intros r]. apply t_pure; intros ->.
  eapply t_bind; [eapply t_check_direction; exact Hget|intros ?].
  eapply t_bind; [apply t_get_stream_list; apply dir_session_get; exact Hget|intros st]. apply t_pure; intros Est.
  rewrite <- Est in SPEC.
  set (ss1 := dir_session ss0 (hdr_ssrc pkt) st0 dir_srtp_sender_c) in *.
  pose proof (dir_stream_cfg st0 dir_srtp_sender_c) as CF. rewrite <- Est in CF.
  destruct CF as (CK & CM & CU & CX). rewrite Hcx in CX.
  assert (CS : s_rtp_serv st = s_rtp_serv st0) by (rewrite Est; apply dir_stream_rtp_serv).
  assert (CONF : rtp_conf st = true) by (unfold rtp_conf in *; rewrite CS; exact Hconf).
  assert (IU : cryptex_inuse st pkt = true).
  { unfold cryptex_inuse. rewrite CX, CONF, HX. reflexivity. }
  rewrite keys_by_index_eq. destruct (sender_key_st st i) as [[ki k]|e] eqn:EK.
  2:{ apply t_bind_exit. intros w Hw. exact (g_exit _ _ _ _ _ _ _ _ _ _ _ _ _ Hw SPEC). }
  apply t_bind_ret. cbv beta iota.
  eapply t_bind2; [eapply t_charge_key; apply dir_session_get; exact Hget| |intros ?].
  { intros s w (ss' & EC & Hw). rewrite <- Est in EC. rewrite EC in SPEC. exact (g_exit _ _ _ _ _ _ _ _ _ _ _ _ _ Hw SPEC). }
  apply t_ex; intros ss2. apply t_pure; intros EC. apply t_pure; intros Hg2.
  rewrite <- Est in EC. rewrite EC in SPEC.
  destruct (C <? L + ak_tag (k_rtp_a k) + s_mki_size st) eqn:E1.
  { apply t_bind_exit. intros w Hw. exact (g_exit _ _ _ _ _ _ _ _ _ _ _ _ _ Hw SPEC). }
  apply t_bind_ret.
  change (negb (Z.land (s_rtp_serv st) sec_serv_conf_c =? 0)) with (rtp_conf st).
  rewrite IU in SPEC.
  rewrite CX, CONF, HX in *. cbn [andb negb Z.eqb Pos.eqb] in *.
  replace (hdr_cc pkt =? 0) with false in * by (symmetry; apply Z.eqb_neq; exact HCC). cbn [andb negb] in *.
  apply t_bind_ret.
  apply t_bind_exit. intros w Hw. exact (g_exit _ _ _ _ _ _ _ _ _ _ _ _ _ Hw SPEC).
Qed.

(* 5b. no CSRC: the same wire image as in place *)
Hypothesis Hxk : forall k, In k (s_keys st0) -> k_xtn_c k = None.

Lemma protect_aead_cx_oop_tri i :
  hdr_cc pkt = 0 -> tri (S ss0 (eq d0)) (protect_aead i) (GQ true i) (GE true i).
Proof.
  intros HCC.
  pose proof (eq_refl (protect_aead_fun_gen true ss0 i C pkt)) as SPEC. unfold protect_aead_fun_gen at 2 in SPEC.
  cbv zeta in SPEC. rewrite HLp in SPEC. cbn [andb] in SPEC.
  unfold protect_aead.
  eapply t_bind; [apply t_get_b0|intros b]. apply t_pure; intros ->.
  cbv beta zeta. norm_b.
  change octets_in_rtp_header_c with 12. change octets_in_rtp_xtn_hdr_c with 4.
  unfold check_st. destruct (validate_rtp pkt L =? st_ok) eqn:EV; cbn [negb] in SPEC.
  2:{ apply t_bind_exit. intros w Hw. exact (g_exit _ _ _ _ _ _ _ _ _ _ _ _ _ Hw SPEC). }
  apply t_bind_ret. pose proof EV as EVb. apply Z.eqb_eq in EV.
  pose proof (validate_rtp_ok _ _ EV) as (V1 & V2 & V3). specialize (V3 HX).
  pose proof (hdr_len_eq pkt) as HLn. pose proof (xtn_len_ge pkt) as XL.
  assert (HL12 : hdr_len pkt = 12) by lia.
  rewrite Hget in SPEC. cbv beta iota in SPEC.
  eapply t_bind; [eapply t_lookup_existing; exact Hget|intros r]. apply t_pure; intros ->.
  eapply t_bind; [eapply t_check_direction; exact Hget|intros ?].
  eapply t_bind; [apply t_get_stream_list; apply dir_session_get; exact Hget|intros st]. apply t_pure; intros Est.
  rewrite <- Est in SPEC.
  set (ss1 := dir_session ss0 (hdr_ssrc pkt) st0 dir_srtp_sender_c) in *.
  pose proof (dir_stream_cfg st0 dir_srtp_sender_c) as CF. rewrite <- Est in CF.
  assert (Wst : stream_wf st) by exact (stream_wf_cfg _ _ CF Hwf).
  destruct CF as (CK & _ & CU & CX). rewrite Hcx in CX.
  assert (CS : s_rtp_serv st = s_rtp_serv st0) by (rewrite Est; apply dir_stream_rtp_serv).
  assert (CONF : rtp_conf st = true) by (unfold rtp_conf in *; rewrite CS; exact Hconf).
  assert (IU : cryptex_inuse st pkt = true).
  { unfold cryptex_inuse. rewrite CX, CONF, HX. reflexivity. }
  rewrite keys_by_index_eq. destruct (sender_key_st st i) as [[ki k]|e] eqn:EK.
  2:{ apply t_bind_exit. intros w Hw. exact (g_exit _ _ _ _ _ _ _ _ _ _ _ _ _ Hw SPEC). }
  apply t_bind_ret. cbv beta iota.
  pose proof (sender_key_st_In _ _ _ _ EK) as Hk.
  pose proof (stream_wf_key _ _ Wst Hk) as (MK & TA & _).
  assert (XK : k_xtn_c k = None) by (apply Hxk; rewrite <- CK; exact Hk).
  destruct Wst as (Mb & U & _). rewrite max_mki_value in Mb.
  pose proof TA as [T _]. rewrite max_tag_value in T.
  eapply t_bind2; [eapply t_charge_key; apply dir_session_get; exact Hget| |intros ?].
  { intros s w (ss' & EC & Hw). rewrite <- Est in EC. rewrite EC in SPEC. exact (g_exit _ _ _ _ _ _ _ _ _ _ _ _ _ Hw SPEC). }
  apply t_ex; intros ss2. apply t_pure; intros EC. apply t_pure; intros Hg2.
  rewrite <- Est in EC, Hg2. rewrite EC in SPEC.
  set (tl := ak_tag (k_rtp_a k)) in *. set (msz := s_mki_size st) in *.
  destruct (C <? L + tl + msz) eqn:E1.
  { apply t_bind_exit. intros w Hw. exact (g_exit _ _ _ _ _ _ _ _ _ _ _ _ _ Hw SPEC). }
  apply t_bind_ret. apply Z.ltb_ge in E1.
  (* cryptex is in use, out of place, no CSRC: the encrypted portion starts at 16 *)
  change (negb (Z.land (s_rtp_serv st) sec_serv_conf_c =? 0)) with (rtp_conf st).
  rewrite IU in SPEC.
  rewrite CX, CONF, HX in *. cbn [andb negb Z.eqb Pos.eqb] in *.
  replace (hdr_cc pkt =? 0) with true in * by (symmetry; apply Z.eqb_eq; exact HCC). cbn [andb negb] in *.
  apply t_bind_ret.
  assert (ES16 : u64 (u64 (hdr_len pkt + xtn_len pkt - (xtn_len pkt - 4)) - 0) = 16).
  { rewrite (u64_small (hdr_len pkt + xtn_len pkt - (xtn_len pkt - 4))) by lia. rewrite u64_small by lia. lia. }
  rewrite ES16. apply t_bind_ret.
  destruct (L <? 16) eqn:E2; [apply Z.ltb_lt in E2; lia|]. apply t_bind_ret.
  (* header *)
  eapply t_bind; [apply (header_copy L C false src d0 pkt HD Hpkt HLp); lia|intros ?].
  unfold P0. change (zn 16) with 16%nat.
  (* index *)
  eapply t_bind; [apply t_get_stream_list; exact Hg2|intros st2]. apply t_pure; intros ->.
  set (st2 := charged_stream st ki) in *.
  unfold index_step in SPEC.
  destruct (est_index st2 (hdr_seq pkt)) as [[est_st est] delta].
  destruct (negb (est_st =? st_ok) && negb (est_st =? st_pkt_idx_adv)).
  { apply t_bind_exit. intros w Hw. exact (g_exit _ _ _ _ _ _ _ _ _ _ _ _ _ Hw SPEC). }
  apply t_bind_ret.
  apply t_bind with (R := fun _ w =>
    exists st3, (if est_st =? st_pkt_idx_adv then inl (est, commit_advance st2 est)
                 else if negb (rdbx_check (s_rdbx st2) delta =? st_ok) &&
                         (negb (rdbx_check (s_rdbx st2) delta =? st_replay_fail) || negb (s_allow_repeat st2))
                      then inr (rdbx_check (s_rdbx st2) delta)
                      else inl (est, set_pending (set_rdbx st2 (rdbx_add (s_rdbx st2) delta)) 0)) = inl (est, st3) /\
                S (sess_put ss2 (hdr_ssrc pkt) st3) (facts_ok [(0, take 16 pkt)]) w).
  { destruct (est_st =? st_pkt_idx_adv).
    - eapply t_post; [apply t_put_stream_list|]. intros ? w Hw. eexists. split; [reflexivity|exact Hw].
    - destruct (negb (rdbx_check (s_rdbx st2) delta =? st_ok) &&
                (negb (rdbx_check (s_rdbx st2) delta =? st_replay_fail) || negb (s_allow_repeat st2))).
      + apply t_bind_exit. intros w Hw. exact (g_exit _ _ _ _ _ _ _ _ _ _ _ _ _ Hw SPEC).
      + apply t_bind_ret. eapply t_post; [apply t_put_stream_list|]. intros ? w Hw. eexists. split; [reflexivity|exact Hw]. }
  intros ?. apply t_ex; intros st3. apply t_pure; intros E3. cbv zeta in SPEC. rewrite E3 in SPEC.
  set (ss3 := sess_put ss2 (hdr_ssrc pkt) st3) in *.
  set (iv := aead_rtp_iv (k_salt k) (hdr_ssrc pkt) est) in *.
  eapply t_bind; [apply t_log_gcm_iv|intros ?].
  rewrite XK. apply t_bind_ret. apply t_bind_ret.
  (* the wire function *)
  unfold rtp_aead_wire_r in SPEC. rewrite IU in SPEC. unfold rtp_aead_cryptex_wire in SPEC.
  rewrite HLp, EVb in SPEC. cbn [negb] in SPEC. cbv zeta in SPEC. fold iv tl in SPEC.
  rewrite HL12, HCC in *. change (zn (4 * 0)) with O in SPEC. change (zn 12) with 12%nat in *.
  change (zn (12 + 4)) with 16%nat in SPEC.
  assert (LT16 : lenZ (take 16 pkt) = 16) by (unfold lenZ, zn in *; rewrite take_length; lia).
  (* the profile: read from the copied header *)
  apply t_assoc. eapply t_bind; [apply t_rd_dst; lia|intros h]. apply t_pure; intros (dd & Hf & _ & ->).
  rewrite (fact0_read dd _ _ _ (Forall_inv Hf)) by (unfold lenZ, zn in *; lia).
  change (zn 2) with 2%nat. change (zn 12) with 12%nat. rewrite slice_take by lia. rewrite RtpUnprotProofs.be16_slice2_0. cbv zeta.
  assert (EQP : forall (f : Z -> M unit) (e : M unit),
            (if be16 pkt 12 =? xtn_hdr_one_byte_profile_c then f cryptex_one_byte_profile_c
             else if be16 pkt 12 =? xtn_hdr_two_byte_profile_c then f cryptex_two_byte_profile_c else e)
            = match cryptex_profile_of (be16 pkt 12) with Some v => f v | None => e end).
  { intros f e. unfold cryptex_profile_of. destruct (_ =? xtn_hdr_one_byte_profile_c); [reflexivity|].
    destruct (_ =? xtn_hdr_two_byte_profile_c); reflexivity. }
  rewrite (EQP (set_profile pkt) (exit_with st_parse_err)).
  destruct (cryptex_profile_of (be16 pkt 12)) as [v|] eqn:PV.
  2:{ apply t_bind_exit. intros w Hw. exact (g_exit _ _ _ _ _ _ _ _ _ _ _ _ _ Hw SPEC). }
  set (vb := be_bytes 2 (Z.to_N v)) in *.
  assert (LV : lenZ vb = 2) by (subst vb; rewrite lenZ_be_bytes; reflexivity).
  set (p2 := splice 12 vb pkt) in *.
  assert (LP2 : lenZ p2 = L) by (subst p2; rewrite lenZ_splice; exact HLp).
  apply t_assoc. eapply t_bind; [unfold set_profile; rewrite HL12; fold vb; apply t_wr_in2; [lia|lia|lia|constructor]|intros ?].
  change (zn 12) with 12%nat.
  replace (splice 12 vb (take 16 pkt)) with (take 16 p2)
    by (subst p2; apply take_splice_in; unfold lenZ in LV; lia).
  apply t_bind_ret.
  assert (LT2 : lenZ (take 16 p2) = 16) by (unfold lenZ, zn in *; rewrite take_length; lia).
  assert (T16 : take 16 p2 = take 12 p2 ++ slice 12 4 p2) by (apply (take_add 12 4)).
  (* AAD from the output, payload from the input *)
  eapply t_bind; [apply t_rd_dst; [lia|lia|lia]|intros aad]. apply t_pure; intros (dd2 & Hf2 & _ & ->).
  rewrite (fact0_read dd2 _ _ _ (Forall_inv Hf2)) by (unfold lenZ, zn in *; lia).
  change (zn 0) with O. change (zn 16) with 16%nat. rewrite slice_0, take_take. change (Nat.min 16 16) with 16%nat.
  eapply t_bind; [apply t_rd_src; lia|intros d]. apply t_pure; intros (dd3 & _ & _ & ->). cbv iota.
  rewrite (in_slice L false src d0 pkt Hpkt 16 (L - 16)) by lia.
  replace (slice (zn 16) (zn (L - 16)) pkt) with (slice 12 0 p2 ++ drop 16 p2).
  2:{ change (slice 12 0 p2 ++ drop 16 p2) with (drop 16 p2). change (zn 16) with 16%nat.
      rewrite slice_to_end by (unfold lenZ, zn in *; lia).
      subst p2. apply drop_splice_above. unfold lenZ in LV. lia. }
  assert (LPT : lenZ (slice 12 0 p2 ++ drop 16 p2) = L - 16).
  { change (slice 12 0 p2 ++ drop 16 p2) with (drop 16 p2). unfold lenZ in *. rewrite drop_length. lia. }
  rewrite T16.
  rewrite gcm_seal_ok by lia. fold tl iv.
  remember (gcm_encrypt (ck_rks (k_rtp_c k)) iv (take 12 p2 ++ slice 12 4 p2) (slice 12 0 p2 ++ drop 16 p2) (zn tl)) as ge eqn:EG in *.
  destruct ge as [ct tag]. symmetry in EG. pose proof (gcm_encrypt_length _ _ _ _ _ _ _ EG) as [LG1 LG2].
  set (o := ct ++ tag) in *.
  assert (LCT : lenZ ct = L - 16) by (unfold lenZ in *; lia).
  assert (LTG : lenZ tag = tl) by (unfold lenZ, zn in *; lia).
  assert (LO : lenZ o = L - 16 + tl) by (subst o; rewrite lenZ_app; lia).
  change (negb (st_ok =? st_ok)) with false. cbv iota.
  rewrite <- T16.
  eapply t_bind; [apply (t_wr_tail L C false src d0 HD); [lia|lia]|intros ?].
  change (zn 16) with 16%nat. rewrite take_take. change (Nat.min 16 16) with 16%nat.
  (* MKI *)
  set (mki := if s_use_mki st then k_mki k else []) in *.
  assert (LM : lenZ mki = msz).
  { subst mki. destruct (s_use_mki st); [exact MK|]. rewrite (U eq_refl). reflexivity. }
  apply t_bind with (R := fun _ => S ss3 (facts_ok [(0, (take 16 p2 ++ o) ++ mki)])).
  { replace (s_use_mki st2) with (s_use_mki st) by (unfold st2; rewrite charged_umki; reflexivity).
    subst mki. destruct (s_use_mki st) eqn:EU.
    - replace (16 + lenZ o) with (lenZ (take 16 p2 ++ o)) by (rewrite lenZ_app; lia).
      apply t_wr_append; [exact HD|rewrite lenZ_app; lia|constructor].
    - apply t_ret. intros w Hw. rewrite app_nil_r. exact Hw. }
  intros ?. apply t_bind_ret.
  apply t_ret. intros w (h0 & h1 & h2 & h3 & h4 & h5 & h6 & h7).
  exists ((take 16 p2 ++ o) ++ mki). rewrite h0.
  split.
  { rewrite SPEC. f_equal. f_equal. rewrite T16. subst o. cbn [take drop]. rewrite <- !app_assoc. reflexivity. }
  assert (LW : lenZ ((take 16 p2 ++ o) ++ mki) = L + tl + msz) by (rewrite !lenZ_app; lia).
  replace (16 + lenZ o + s_mki_size st2) with (lenZ ((take 16 p2 ++ o) ++ mki))
    by (unfold st2; rewrite charged_mki; fold msz; lia).
  rewrite u64_small by lia. split; [reflexivity|]. split; [|auto].
  rewrite zn_len. pose proof (fact_get _ _ 0 _ h7 ltac:(left; reflexivity)) as F.
  change (zn 0) with O in F. rewrite slice_0 in F. exact F.
Qed.
End TX_CX_OOP.

(* ===================================================================== *)
(* 6. the theorems, for worlds                                            *)
(* ===================================================================== *)
(* the class of streams covered: no cryptex (RFC 6904 allowed), or cryptex without header-extension
   cipher (cryptex TOGETHER with RFC 6904 out of place is alias dependent: AeadCryptexOop.v) *)
Definition aead_tx_class (st : stream) : Prop :=
  s_cryptex st = false \/ (forall k, In k (s_keys st) -> k_xtn_c k = None).

Lemma in_pkt_len w : call_ok w -> lenZ (in_pkt w) = b_len (w_b w).
Proof. intros (_ & HL & _ & _ & HS). unfold in_pkt, lenZ, zn, size_ok in *. rewrite take_length. lia. Qed.

(* REFINEMENT, whole class: in place the model computes protect_aead_fun, out of place
   protect_aead_oop_fun, whatever the destination held; the source is left alone and no access is
   out of bounds *)
Theorem protect_aead_refines_cx i w st0 :
  call_ok w ->
  list_get (ss_list (w_s w)) (hdr_ssrc (in_pkt w)) = Some st0 -> stream_wf st0 -> aead_tx_class st0 ->
  let F := if b_alias (w_b w) then protect_aead_fun else protect_aead_oop_fun in
  match protect_aead i w with
  | (w', inl l) =>
      exists wire, F (w_s w) i (b_cap (w_b w)) (in_pkt w) = (w_s w', inl wire) /\
                   l = lenZ wire /\ take (zn l) (b_dst (w_b w')) = wire /\
                   b_src (w_b w') = b_src (w_b w) /\ b_oob (w_b w') = false
  | (w', inr s) =>
      F (w_s w) i (b_cap (w_b w)) (in_pkt w) = (w_s w', inr s) /\
      b_src (w_b w') = b_src (w_b w) /\ b_oob (w_b w') = false
  end.
Proof.
  intros OK Hget Hwf CLS. pose proof (in_pkt_len w OK) as HLp. destruct OK as (HO & HL & HC & HD & HS).
  assert (G : tri (St (b_len (w_b w)) (b_cap (w_b w)) (b_alias (w_b w)) (b_src (w_b w)) (b_dst (w_b w)) (w_s w) (eq (b_dst (w_b w))))
                  (protect_aead i)
                  (GQ (b_cap (w_b w)) (b_src (w_b w)) (in_pkt w) (w_s w) (negb (b_alias (w_b w))) i)
                  (GE (b_cap (w_b w)) (b_src (w_b w)) (in_pkt w) (w_s w) (negb (b_alias (w_b w))) i)).
  { destruct (cryptex_inuse st0 (in_pkt w)) eqn:IU.
    - (* cryptex in use: the stream has no header-extension cipher *)
      assert (Hxk : forall k, In k (s_keys st0) -> k_xtn_c k = None).
      { destruct CLS as [CX|Hxk]; [|exact Hxk]. unfold cryptex_inuse in IU. rewrite CX in IU. discriminate IU. }
      unfold cryptex_inuse in IU. apply andb_true_iff in IU. destruct IU as [IU HX].
      apply andb_true_iff in IU. destruct IU as [Hcx Hconf]. apply Z.eqb_eq in HX.
      destruct (b_alias (w_b w)) eqn:HA; cbn [negb].
      + assert (Hp : take (zn (b_len (w_b w))) (b_dst (w_b w)) = in_pkt w) by (unfold in_pkt, cur_src; rewrite HA; reflexivity).
        exact (protect_aead_cx_inplace_tri _ _ _ _ _ HL HC HD Hp HLp _ _ Hget Hwf Hcx Hconf HX Hxk i).
      + assert (Hp : take (zn (b_len (w_b w))) (b_src (w_b w)) = in_pkt w) by (unfold in_pkt, cur_src; rewrite HA; reflexivity).
        destruct (Z.eq_dec (hdr_cc (in_pkt w)) 0) as [HCC|HCC].
        * exact (protect_aead_cx_oop_tri _ _ _ _ _ HC HD Hp HLp _ _ Hget Hwf Hcx Hconf HX Hxk i HCC).
        * exact (protect_aead_cx_oop_refusal_tri _ _ _ _ _ Hp HLp _ _ Hget Hcx Hconf HX i HCC).
    - exact (protect_aead_plain_tri _ _ _ _ _ _ HC HD eq_refl HLp _ _ Hget Hwf IU _ i). }
  specialize (G w (St_init w HO)). cbv zeta.
  unfold GQ, GE, protect_aead_fun, protect_aead_oop_fun in *.
  destruct (b_alias (w_b w)); cbn [negb] in G; destruct (protect_aead i w) as [w' [l|s]]; exact G.
Qed.
Print Assumptions protect_aead_refines_cx.

(* REFINEMENT for streams without cryptex (RFC 6904 header-extension encryption allowed): ONE function
   in both alias modes *)
Theorem protect_aead_refines i w st0 :
  call_ok w ->
  list_get (ss_list (w_s w)) (hdr_ssrc (in_pkt w)) = Some st0 -> stream_wf st0 -> s_cryptex st0 = false ->
  match protect_aead i w with
  | (w', inl l) =>
      exists wire, protect_aead_fun (w_s w) i (b_cap (w_b w)) (in_pkt w) = (w_s w', inl wire) /\
                   l = lenZ wire /\ take (zn l) (b_dst (w_b w')) = wire /\
                   b_src (w_b w') = b_src (w_b w) /\ b_oob (w_b w') = false
  | (w', inr s) =>
      protect_aead_fun (w_s w) i (b_cap (w_b w)) (in_pkt w) = (w_s w', inr s) /\
      b_src (w_b w') = b_src (w_b w) /\ b_oob (w_b w') = false
  end.
Proof.
  intros OK Hget Hwf Hcx. pose proof (in_pkt_len w OK) as HLp. destruct OK as (HO & HL & HC & HD & HS).
  assert (IU : cryptex_inuse st0 (in_pkt w) = false) by (unfold cryptex_inuse; rewrite Hcx; reflexivity).
  pose proof (protect_aead_plain_tri _ _ _ _ _ _ HC HD eq_refl HLp _ _ Hget Hwf IU false i w (St_init w HO)) as T.
  unfold GQ, GE in T. unfold protect_aead_fun.
  destruct (protect_aead i w) as [w' [l|s]]; exact T.
Qed.
Print Assumptions protect_aead_refines.

(* C12 (SRTP protect, GCM key, streams without cryptex): the same packet protected in place and out of
   place (whatever the destination block held): same status — at every error exit too —, same length,
   same output octets, same final session; the out-of-place call leaves its source alone *)
Theorem protect_aead_alias_independent i wa wo st0 :
  call_ok wa -> call_ok wo ->
  b_alias (w_b wa) = true -> b_alias (w_b wo) = false ->
  w_s wa = w_s wo -> b_cap (w_b wa) = b_cap (w_b wo) -> in_pkt wa = in_pkt wo ->
  list_get (ss_list (w_s wa)) (hdr_ssrc (in_pkt wa)) = Some st0 -> stream_wf st0 -> s_cryptex st0 = false ->
  w_s (fst (protect_aead i wa)) = w_s (fst (protect_aead i wo)) /\
  b_src (w_b (fst (protect_aead i wo))) = b_src (w_b wo) /\
  match snd (protect_aead i wa), snd (protect_aead i wo) with
  | inl la, inl lo =>
      la = lo /\ take (zn la) (b_dst (w_b (fst (protect_aead i wa)))) = take (zn lo) (b_dst (w_b (fst (protect_aead i wo))))
  | inr sa, inr so => sa = so
  | _, _ => False
  end.
Proof.
  intros Ha Ho _ _ ES EC EP Hget Hwf Hcx.
  pose proof (protect_aead_refines i wa st0 Ha Hget Hwf Hcx) as Ta.
  rewrite ES, EP in Hget.
  pose proof (protect_aead_refines i wo st0 Ho Hget Hwf Hcx) as To.
  rewrite ES, EC, EP in Ta.
  destruct (protect_aead i wa) as [wa' [la|sa]], (protect_aead i wo) as [wo' [lo|so]]; cbn [fst snd].
  - destruct Ta as (wa_ & Fa & -> & Da & _), To as (wo_ & Fo & -> & Do & So & _).
    rewrite Fa in Fo. injection Fo as E1 E2. subst wo_. rewrite Da, Do. auto.
  - destruct Ta as (wa_ & Fa & _), To as (Fo & So & _). rewrite Fa in Fo. discriminate.
  - destruct Ta as (Fa & _), To as (wo_ & Fo & _). rewrite Fa in Fo. discriminate.
  - destruct Ta as (Fa & _), To as (Fo & So & _). rewrite Fa in Fo. injection Fo as E1 E2. auto.
Qed.
Print Assumptions protect_aead_alias_independent.

(* what the refusal point is *)
Lemma protect_aead_refusal_inv ss i C pkt ss2 :
  protect_aead_refusal ss i C pkt = Some ss2 ->
  exists st0 ki k,
    list_get (ss_list ss) (hdr_ssrc pkt) = Some st0 /\ cryptex_inuse st0 pkt = true /\ hdr_cc pkt <> 0 /\
    validate_rtp pkt (lenZ pkt) = st_ok /\
    sender_key_st (dir_stream st0 dir_srtp_sender_c) i = inl (ki, k) /\
    charge_fun (dir_session ss (hdr_ssrc pkt) st0 dir_srtp_sender_c) (hdr_ssrc pkt) (dir_stream st0 dir_srtp_sender_c) ki = (ss2, inl tt) /\
    lenZ pkt + ak_tag (k_rtp_a k) + s_mki_size st0 <= C.
Proof.
  unfold protect_aead_refusal. cbv zeta.
  destruct (validate_rtp pkt (lenZ pkt) =? st_ok) eqn:EV; cbn [negb]; [|discriminate].
  destruct (list_get (ss_list ss) (hdr_ssrc pkt)) as [st0|]; [|discriminate].
  destruct (sender_key_st _ i) as [[ki k]|e] eqn:EK; [|discriminate].
  destruct (charge_fun _ _ _ ki) as [ss2' [[]|e]] eqn:EC; [|discriminate].
  destruct (C <? _) eqn:E1; [discriminate|].
  rewrite cryptex_inuse_dir.
  destruct (cryptex_inuse st0 pkt) eqn:IU; cbn [andb]; [|discriminate].
  destruct (hdr_cc pkt =? 0) eqn:E0; cbn [negb]; [discriminate|].
  intros H. injection H as <-. exists st0, ki, k.
  apply Z.eqb_eq in EV. apply Z.eqb_neq in E0. apply Z.ltb_ge in E1.
  destruct (dir_stream_cfg st0 dir_srtp_sender_c) as (_ & CM & _). rewrite CM in E1.
  repeat split; auto.
Qed.

(* C12 with its DOCUMENTED EXCEPTION, for the whole class (cryptex included): the in-place and the
   out-of-place call agree in status, length, output octets and final session UNLESS the call reaches
   the refusal point (cryptex in use for a packet that has CSRCs, all earlier checks passed); there
   the out-of-place call returns cryptex_err with the session as left by the direction update and the
   key-budget charge, while the in-place call goes on (AeadCryptexInplace.v: it emits the RFC 9335
   wire image) *)
Theorem protect_aead_alias_cx i wa wo st0 :
  call_ok wa -> call_ok wo ->
  b_alias (w_b wa) = true -> b_alias (w_b wo) = false ->
  w_s wa = w_s wo -> b_cap (w_b wa) = b_cap (w_b wo) -> in_pkt wa = in_pkt wo ->
  list_get (ss_list (w_s wa)) (hdr_ssrc (in_pkt wa)) = Some st0 -> stream_wf st0 -> aead_tx_class st0 ->
  b_src (w_b (fst (protect_aead i wo))) = b_src (w_b wo) /\
  match protect_aead_refusal (w_s wa) i (b_cap (w_b wa)) (in_pkt wa) with
  | None =>
      w_s (fst (protect_aead i wa)) = w_s (fst (protect_aead i wo)) /\
      match snd (protect_aead i wa), snd (protect_aead i wo) with
      | inl la, inl lo =>
          la = lo /\ take (zn la) (b_dst (w_b (fst (protect_aead i wa)))) = take (zn lo) (b_dst (w_b (fst (protect_aead i wo))))
      | inr sa, inr so => sa = so
      | _, _ => False
      end
  | Some ss2 =>
      snd (protect_aead i wo) = inr st_cryptex_err /\ w_s (fst (protect_aead i wo)) = ss2 /\
      protect_aead_fun (w_s wa) i (b_cap (w_b wa)) (in_pkt wa) = (w_s (fst (protect_aead i wa)), 
         match snd (protect_aead i wa) with
         | inl la => inl (take (zn la) (b_dst (w_b (fst (protect_aead i wa)))))
         | inr sa => inr sa
         end)
  end.
Proof.
  intros Ha Ho AA AO ES EC EP Hget Hwf CLS.
  pose proof (protect_aead_refines_cx i wa st0 Ha Hget Hwf CLS) as Ta.
  rewrite ES, EP in Hget.
  pose proof (protect_aead_refines_cx i wo st0 Ho Hget Hwf CLS) as To.
  rewrite AA in Ta. rewrite AO in To. cbv zeta in Ta, To.
  rewrite protect_aead_oop_fun_eq in To. rewrite <- ES, <- EC, <- EP in To.
  destruct (protect_aead_refusal (w_s wa) i (b_cap (w_b wa)) (in_pkt wa)) as [ss2|].
  - destruct (protect_aead i wa) as [wa' [la|sa]], (protect_aead i wo) as [wo' [lo|so]]; cbn [fst snd].
    + destruct To as (wo_ & Fo & _). discriminate Fo.
    + destruct Ta as (wa_ & Fa & -> & Da & _), To as (Fo & So & _). injection Fo as E1 E2. subst.
      rewrite Fa, Da. auto.
    + destruct To as (wo_ & Fo & _). discriminate Fo.
    + destruct Ta as (Fa & _), To as (Fo & So & _). injection Fo as E1 E2. subst. auto.
  - destruct (protect_aead i wa) as [wa' [la|sa]], (protect_aead i wo) as [wo' [lo|so]]; cbn [fst snd].
    + destruct Ta as (wa_ & Fa & -> & Da & _), To as (wo_ & Fo & -> & Do & So & _).
      rewrite Fa in Fo. injection Fo as E1 E2. subst wo_. rewrite Da, Do. auto.
    + destruct Ta as (wa_ & Fa & _), To as (Fo & So & _). rewrite Fa in Fo. discriminate.
    + destruct Ta as (Fa & _), To as (wo_ & Fo & _ & _ & So & _). rewrite Fa in Fo. discriminate.
    + destruct Ta as (Fa & _), To as (Fo & So & _). rewrite Fa in Fo. injection Fo as E1 E2. auto.
Qed.
Print Assumptions protect_aead_alias_cx.

(* a successful protect_aead_fun is a wire image in the sense of rtp_aead_wire / rtp_aead_cryptex_wire *)
Lemma protect_aead_fun_wire oop ss i C pkt ss' wire :
  protect_aead_fun_gen oop ss i C pkt = (ss', inl wire) ->
  exists st0 ki k ss2 est st3,
    list_get (ss_list ss) (hdr_ssrc pkt) = Some st0 /\
    sender_key_st (dir_stream st0 dir_srtp_sender_c) i = inl (ki, k) /\
    charge_fun (dir_session ss (hdr_ssrc pkt) st0 dir_srtp_sender_c) (hdr_ssrc pkt) (dir_stream st0 dir_srtp_sender_c) ki = (ss2, inl tt) /\
    index_step (charged_stream (dir_stream st0 dir_srtp_sender_c) ki) (hdr_seq pkt) = inl (est, st3) /\
    ss' = sess_put ss2 (hdr_ssrc pkt) st3 /\
    (if cryptex_inuse st0 pkt then rtp_aead_cryptex_wire st0 k est pkt else rtp_aead_wire st0 k est pkt) = Some wire.
Proof.
  unfold protect_aead_fun_gen. cbv zeta.
  destruct (negb (validate_rtp pkt (lenZ pkt) =? st_ok)); [intros H; discriminate|].
  destruct (list_get (ss_list ss) (hdr_ssrc pkt)) as [st0|]; [|intros H; discriminate].
  set (st := dir_stream st0 dir_srtp_sender_c).
  destruct (sender_key_st st i) as [[ki k]|e] eqn:EK; [|intros H; discriminate].
  destruct (charge_fun _ _ st ki) as [ss2 [[]|e]] eqn:EC; [|intros H; discriminate].
  destruct (C <? _) eqn:E1; [intros H; discriminate|].
  destruct (_ && _ && _ && _); [intros H; discriminate|].
  destruct (oop && _); [intros H; discriminate|].
  destruct (index_step _ _) as [[est st3]|e] eqn:EI; [|intros H; discriminate].
  unfold rtp_aead_wire_r. subst st. rewrite cryptex_inuse_dir.
  rewrite (rtp_aead_cryptex_wire_cfg st0 _ k est pkt (dir_stream_use_mki st0 _)).
  rewrite (rtp_aead_wire_cfg st0 _ k est pkt (dir_stream_use_mki st0 _) (dir_stream_enc_xtn st0 _)).
  destruct (if cryptex_inuse st0 pkt then _ else _) as [wr|] eqn:EW; intros H; [|discriminate].
  injection H as <- <-. exists st0, ki, k, ss2, est, st3. repeat split; auto.
Qed.
Print Assumptions protect_aead_fun_wire.

(* what is on the wire after a successful call (whole class, either mode) *)
Corollary protect_aead_emits_wire i w st0 w' l :
  call_ok w ->
  list_get (ss_list (w_s w)) (hdr_ssrc (in_pkt w)) = Some st0 -> stream_wf st0 -> aead_tx_class st0 ->
  protect_aead i w = (w', inl l) ->
  exists ki k ss2 est st3 wire,
    sender_key_st (dir_stream st0 dir_srtp_sender_c) i = inl (ki, k) /\
    charge_fun (dir_session (w_s w) (hdr_ssrc (in_pkt w)) st0 dir_srtp_sender_c) (hdr_ssrc (in_pkt w))
               (dir_stream st0 dir_srtp_sender_c) ki = (ss2, inl tt) /\
    index_step (charged_stream (dir_stream st0 dir_srtp_sender_c) ki) (hdr_seq (in_pkt w)) = inl (est, st3) /\
    (if cryptex_inuse st0 (in_pkt w) then rtp_aead_cryptex_wire st0 k est (in_pkt w)
     else rtp_aead_wire st0 k est (in_pkt w)) = Some wire /\
    l = lenZ wire /\ take (zn l) (b_dst (w_b w')) = wire /\
    w_s w' = sess_put ss2 (hdr_ssrc (in_pkt w)) st3 /\
    b_src (w_b w') = b_src (w_b w) /\ b_oob (w_b w') = false.
Proof.
  intros OK Hget Hwf CLS E. pose proof (protect_aead_refines_cx i w st0 OK Hget Hwf CLS) as T. rewrite E in T.
  cbv zeta in T. destruct T as (wire & F & Hl & Hd & Hs & Ho).
  assert (F' : exists oop, protect_aead_fun_gen oop (w_s w) i (b_cap (w_b w)) (in_pkt w) = (w_s w', inl wire)).
  { destruct (b_alias (w_b w)); [exists false|exists true]; exact F. }
  destruct F' as (oop & F').
  destruct (protect_aead_fun_wire _ _ _ _ _ _ _ F') as (st0' & ki & k & ss2 & est & st3 & G & EK & EC & EI & ES & EW).
  rewrite Hget in G. injection G as <-. exists ki, k, ss2, est, st3, wire. repeat split; assumption.
Qed.
Print Assumptions protect_aead_emits_wire.

(* ===================================================================== *)
(* 7. non-vacuity by computation                                           *)
(* ===================================================================== *)
Module AeadProtectFunExample.
Import RtpExamples.RtpEx AeadRtpExample.
Definition model (s : stream) (i : Z) (b : bufs) : session * (bytes + Z) :=
  match protect_aead i (Witness.mkw (gsess s) b) with
  | (w', inl l) => (w_s w', inl (take (zn l) (b_dst (w_b w'))))
  | (w', inr e) => (w_s w', inr e)
  end.
Definition small (b : bufs) : bufs :=
  {| b_src := b_src b; b_dst := b_dst b; b_alias := b_alias b; b_len := b_len b; b_cap := 50; b_oob := false |}.
Definition is_ok {A} (r : A * (bytes + Z)) : bool := match snd r with inl _ => true | inr _ => false end.

(* RFC 6904 + MKI, no cryptex: the pure function is what the model computes, in both modes *)
Example fun_is_model_plain :
  let s := gstream true false [1%N; 2%N] in
  let f := protect_aead_fun (gsess s) 1 96 pkt_x1 in
  is_ok f = true /\ model s 1 (inplace pkt_x1) = f /\ model s 1 (outofplace 238 pkt_x1) = f.
Proof. vm_compute. repeat split; reflexivity. Qed.
(* error exits: MKI index out of range (session after the direction update), *out_len too small (session
   after the key-budget charge) *)
Example fun_is_model_bad_mki :
  let s := gstream true false [] in
  let f := protect_aead_fun (gsess s) 2 96 pkt_x1 in
  snd f = inr st_bad_mki /\ model s 2 (inplace pkt_x1) = f /\ model s 2 (outofplace 0 pkt_x1) = f.
Proof. vm_compute. repeat split; reflexivity. Qed.
Example fun_is_model_small :
  let s := gstream false false [] in
  let f := protect_aead_fun (gsess s) 0 50 pkt_x1 in
  snd f = inr st_buffer_small /\ fst f <> gsess s /\
  model s 0 (small (inplace pkt_x1)) = f /\ model s 0 (small (outofplace 0 pkt_x1)) = f.
Proof. vm_compute. repeat split; try reflexivity. intros H; discriminate H. Qed.
(* cryptex, two CSRCs: in place protect_aead_fun succeeds; out of place the refusal point is reached *)
Example fun_is_model_cryptex_csrc :
  let s := gstream false true [] in
  let f := protect_aead_fun (gsess s) 0 96 pkt_x1 in
  is_ok f = true /\ model s 0 (inplace pkt_x1) = f /\
  (exists ss2, protect_aead_refusal (gsess s) 0 96 pkt_x1 = Some ss2 /\
               model s 0 (outofplace 0 pkt_x1) = (ss2, inr st_cryptex_err) /\
               protect_aead_oop_fun (gsess s) 0 96 pkt_x1 = (ss2, inr st_cryptex_err)).
Proof. vm_compute. split; [reflexivity|]. split; [reflexivity|]. eexists. repeat split; reflexivity. Qed.
(* cryptex, no CSRC: both modes, the same function *)
Example fun_is_model_cryptex_cc0 :
  let s := gstream false true [] in
  let f := protect_aead_fun (gsess s) 0 96 pkt_x0 in
  is_ok f = true /\ model s 0 (inplace pkt_x0) = f /\ model s 0 (outofplace 238 pkt_x0) = f /\
  protect_aead_refusal (gsess s) 0 96 pkt_x0 = None.
Proof. vm_compute. repeat split; reflexivity. Qed.
End AeadProtectFunExample.
