(* EnvelopeProofs.v — C10/C11: what an installed policy guarantees about the sizes the
   fixed scratch buffers of srtp.c have to hold (tmp_tag[SRTP_MAX_TAG_LEN],
   tmp_key[MAX_SRTP_KEY_LEN]) and about the trailer length. *)
From Coq Require Import NArith ZArith List Bool Lia.
From Srtp Require Import Util Constants KeyLimit Rdb Rdbx Icm World Stream.
From Srtp.Crypto Require Import AES HMAC.
Import ListNotations.
Local Open Scope Z_scope.

Lemma max_tag_value : SRTP_MAX_TAG_LEN_c = 16. Proof. reflexivity. Qed.
Lemma max_mki_value : SRTP_MAX_MKI_LEN_c = 128. Proof. reflexivity. Qed.
Lemma max_trailer_value : SRTP_MAX_TRAILER_LEN_c = 144 /\ SRTP_MAX_SRTCP_TRAILER_LEN_c = 148.
Proof. split; reflexivity. Qed.
Lemma tmp_key_size : MAX_SRTP_KEY_LEN_c = 256. Proof. reflexivity. Qed.

(* srtp_valid_policy: tag lengths fit tmp_tag, MKI size is 0 or 1..128.  mki_size is a size_t in C:
   the premise 0 <= p_mki_size makes that domain explicit (the model's Z admits negatives) *)
Lemma valid_policy_envelope p :
  0 <= p_mki_size p ->
  valid_policy p = st_ok ->
  cp_taglen (p_rtp p) <= SRTP_MAX_TAG_LEN_c /\ cp_taglen (p_rtcp p) <= SRTP_MAX_TAG_LEN_c /\
  (if p_usekey p then p_use_mki p = false /\ p_mki_size p = 0
   else 0 < p_nkeys p <= SRTP_MAX_NUM_MASTER_KEYS_c /\
        (if p_use_mki p then 0 < p_mki_size p <= SRTP_MAX_MKI_LEN_c else p_mki_size p = 0)).
Proof.
  unfold valid_policy. intros Hm H.
  destruct (SRTP_MAX_TAG_LEN_c <? cp_taglen (p_rtp p)) eqn:T1; [discriminate|].
  destruct (SRTP_MAX_TAG_LEN_c <? cp_taglen (p_rtcp p)) eqn:T2; [discriminate|].
  cbn [orb] in H. apply Z.ltb_ge in T1, T2. split; [exact T1|]. split; [exact T2|].
  destruct (p_usekey p).
  - destruct (p_use_mki p); [discriminate|]. cbn [orb] in H.
    destruct (p_mki_size p =? 0) eqn:M; [|discriminate]. apply Z.eqb_eq in M. auto.
  - destruct (p_nkeys p <=? 0) eqn:N1; [discriminate|].
    destruct (SRTP_MAX_NUM_MASTER_KEYS_c <? p_nkeys p) eqn:N2; [discriminate|].
    apply Z.leb_gt in N1. apply Z.ltb_ge in N2. split; [lia|].
    destruct (p_use_mki p).
    + destruct (p_mki_size p =? 0) eqn:M1; [discriminate|]. cbn [orb] in H.
      destruct (SRTP_MAX_MKI_LEN_c <? p_mki_size p) eqn:M2; [discriminate|].
      apply Z.eqb_neq in M1. apply Z.ltb_ge in M2. lia.
    + destruct (p_mki_size p =? 0) eqn:M1; [|discriminate]. apply Z.eqb_eq in M1. exact M1.
Qed.

(* hence the trailer of any accepted policy fits the documented maxima *)
Lemma trailer_fits p :
  0 <= p_mki_size p -> valid_policy p = st_ok ->
  p_mki_size p + cp_taglen (p_rtp p) <= SRTP_MAX_TRAILER_LEN_c /\
  p_mki_size p + cp_taglen (p_rtcp p) + sizeof_srtcp_trailer_c <= SRTP_MAX_SRTCP_TRAILER_LEN_c.
Proof.
  intros Hm H. destruct (valid_policy_envelope p Hm H) as (T1 & T2 & R).
  assert (M : p_mki_size p <= SRTP_MAX_MKI_LEN_c).
  { destruct (p_usekey p).
    - destruct R as [_ ->]. rewrite max_mki_value. lia.
    - destruct R as [_ R]. destruct (p_use_mki p); [lia|]. rewrite R, max_mki_value. lia. }
  rewrite max_tag_value in *. rewrite max_mki_value in *.
  destruct max_trailer_value as [-> ->]. unfold sizeof_srtcp_trailer_c. lia.
Qed.

(* ---- tmp_key: the key-derivation staging buffer is never overrun ---- *)
Lemma icm_encrypt_length E c d : (length (snd (icm_encrypt E c d)) <= length d)%nat.
Proof.
  unfold icm_encrypt.
  destruct (icm_max_blocks_c <? _); [cbn; lia|].
  destruct (lenZ d <=? i_in c); cbn [snd]; rewrite xor_bytes_length; lia.
Qed.

Lemma cipher_output_length cs n : lenZ (snd (cipher_output cs n)) <= Z.max n 0.
Proof.
  unfold cipher_output, cipher_encrypt. destruct cs as [|rks c].
  - cbn [snd]. unfold lenZ, zeros. rewrite repeat_length. unfold zn. lia.
  - pose proof (icm_encrypt_length (aes_encrypt_rk rks) c (zeros (zn n))) as L.
    destruct (icm_encrypt (aes_encrypt_rk rks) c (zeros (zn n))) as [[s c'] o]. cbn [snd] in *.
    unfold lenZ. unfold zeros in L. rewrite repeat_length in L. unfold zn in L. lia.
Qed.

Lemma kdf_generate_length kdf l n : lenZ (kdf_generate kdf l n) <= Z.max n 0.
Proof.
  unfold kdf_generate.
  pose proof (cipher_output_length (cipher_start kdf (zeros 7 ++ [Z.to_N l] ++ zeros 8)) n) as L.
  destruct (cipher_output _ n) as [[s c] o]. exact L.
Qed.

Lemma tmp_write_ok t off v :
  snd t = false -> off + lenZ v <= MAX_SRTP_KEY_LEN_c -> snd (tmp_write t off v) = false.
Proof.
  intros H L. unfold tmp_write. cbn [snd]. rewrite H. cbn [orb]. apply Z.ltb_ge. exact L.
Qed.

Lemma base_key_length_bounds alg klen :
  base_key_length alg klen <= Z.max klen 0 /\ (0 < klen - base_key_length alg klen -> base_key_length alg klen + (klen - base_key_length alg klen) = klen).
Proof.
  unfold base_key_length. split; [|lia].
  destruct (alg =? SRTP_NULL_CIPHER_c); [lia|]. destruct (is_icm_alg alg); [unfold SRTP_SALT_LEN_c; lia|].
  destruct (is_gcm_alg alg); [unfold SRTP_AEAD_SALT_LEN_c; lia|lia].
Qed.

Theorem derive_keys_no_overflow p mkey mki st d :
  derive_keys p mkey mki = (st, Some d) -> d_overflow d = false.
Proof.
  unfold derive_keys.
  set (rtp_alg := cipher_alg_of (cp_cipher (p_rtp p)) (cp_keylen (p_rtp p))).
  set (rtcp_alg := cipher_alg_of (cp_cipher (p_rtcp p)) (cp_keylen (p_rtcp p))).
  set (rk := cp_keylen (p_rtp p)). set (ck := cp_keylen (p_rtcp p)).
  set (ra := cp_authkeylen (p_rtp p)). set (ca := cp_authkeylen (p_rtcp p)).
  destruct ((MAX_SRTP_KEY_LEN_c <? rk) || (MAX_SRTP_KEY_LEN_c <? ck) || (MAX_SRTP_KEY_LEN_c <? ra) || (MAX_SRTP_KEY_LEN_c <? ca)) eqn:G;
    [intros H; discriminate|].
  apply orb_false_iff in G. destruct G as [G Gca]. apply orb_false_iff in G. destruct G as [G Gra].
  apply orb_false_iff in G. destruct G as [Grk Gck].
  apply Z.ltb_ge in Grk, Gck, Gra, Gca.
  match goal with |- context [if ?c then (st_bad_param, None) else _] => destruct c; [intros H; discriminate|] end.
  set (kdf := cipher_key _ _ _).
  pose proof (base_key_length_bounds rtp_alg rk) as [B1 B1'].
  pose proof (base_key_length_bounds rtcp_alg ck) as [B2 B2'].
  set (rb := base_key_length rtp_alg rk) in *. set (cb := base_key_length rtcp_alg ck) in *.
  pose proof tmp_key_size as TS.
  (* thread the "no overflow so far" fact through the eight writes *)
  set (t0 := (splice 0 (take (zn _) mkey) (zeros (zn MAX_SRTP_KEY_LEN_c)), false)).
  assert (H0 : snd t0 = false) by reflexivity.
  set (t1 := tmp_write t0 0 (kdf_generate kdf label_rtp_encryption_c rb)).
  assert (H1 : snd t1 = false).
  { apply tmp_write_ok; [exact H0|]. pose proof (kdf_generate_length kdf label_rtp_encryption_c rb). lia. }
  set (t2 := if 0 <? rk - rb then tmp_write t1 rb (kdf_generate kdf label_rtp_salt_c (rk - rb)) else t1).
  assert (H2 : snd t2 = false).
  { subst t2. destruct (0 <? rk - rb) eqn:E; [|exact H1]. apply Z.ltb_lt in E.
    apply tmp_write_ok; [exact H1|]. pose proof (kdf_generate_length kdf label_rtp_salt_c (rk - rb)). lia. }
  destruct (has_xtn p) eqn:HX.
  - set (t3 := tmp_write t2 0 (kdf_generate kdf label_rtp_header_encryption_c rb)).
    assert (H3 : snd t3 = false).
    { apply tmp_write_ok; [exact H2|]. pose proof (kdf_generate_length kdf label_rtp_header_encryption_c rb). lia. }
    set (t4 := if 0 <? rk - rb then tmp_write t3 rb (kdf_generate kdf label_rtp_header_salt_c (rk - rb)) else t3).
    assert (H4 : snd t4 = false).
    { subst t4. destruct (0 <? rk - rb) eqn:E; [|exact H3]. apply Z.ltb_lt in E.
      apply tmp_write_ok; [exact H3|]. pose proof (kdf_generate_length kdf label_rtp_header_salt_c (rk - rb)). lia. }
    set (t5 := tmp_write t4 0 (kdf_generate kdf label_rtp_msg_auth_c ra)).
    assert (H5 : snd t5 = false).
    { apply tmp_write_ok; [exact H4|]. pose proof (kdf_generate_length kdf label_rtp_msg_auth_c ra). lia. }
    set (t6 := tmp_write t5 0 (kdf_generate kdf label_rtcp_encryption_c cb)).
    assert (H6 : snd t6 = false).
    { apply tmp_write_ok; [exact H5|]. pose proof (kdf_generate_length kdf label_rtcp_encryption_c cb). lia. }
    set (t7 := if 0 <? ck - cb then tmp_write t6 cb (kdf_generate kdf label_rtcp_salt_c (ck - cb)) else t6).
    assert (H7 : snd t7 = false).
    { subst t7. destruct (0 <? ck - cb) eqn:E; [|exact H6]. apply Z.ltb_lt in E.
      apply tmp_write_ok; [exact H6|]. pose proof (kdf_generate_length kdf label_rtcp_salt_c (ck - cb)). lia. }
    set (t8 := tmp_write t7 0 (kdf_generate kdf label_rtcp_msg_auth_c ca)).
    assert (H8 : snd t8 = false).
    { apply tmp_write_ok; [exact H7|]. pose proof (kdf_generate_length kdf label_rtcp_msg_auth_c ca). lia. }
    intros H. injection H as _ <-. cbn [d_overflow]. exact H8.
  - set (t5 := tmp_write t2 0 (kdf_generate kdf label_rtp_msg_auth_c ra)).
    assert (H5 : snd t5 = false).
    { apply tmp_write_ok; [exact H2|]. pose proof (kdf_generate_length kdf label_rtp_msg_auth_c ra). lia. }
    set (t6 := tmp_write t5 0 (kdf_generate kdf label_rtcp_encryption_c cb)).
    assert (H6 : snd t6 = false).
    { apply tmp_write_ok; [exact H5|]. pose proof (kdf_generate_length kdf label_rtcp_encryption_c cb). lia. }
    set (t7 := if 0 <? ck - cb then tmp_write t6 cb (kdf_generate kdf label_rtcp_salt_c (ck - cb)) else t6).
    assert (H7 : snd t7 = false).
    { subst t7. destruct (0 <? ck - cb) eqn:E; [|exact H6]. apply Z.ltb_lt in E.
      apply tmp_write_ok; [exact H6|]. pose proof (kdf_generate_length kdf label_rtcp_salt_c (ck - cb)). lia. }
    set (t8 := tmp_write t7 0 (kdf_generate kdf label_rtcp_msg_auth_c ca)).
    assert (H8 : snd t8 = false).
    { apply tmp_write_ok; [exact H7|]. pose proof (kdf_generate_length kdf label_rtcp_msg_auth_c ca). lia. }
    intros H. injection H as _ <-. cbn [d_overflow]. exact H8.
Qed.
