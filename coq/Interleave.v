(* Interleave.v — C19: if no step of any thread modifies the shared (process-global) component and
   every step works only on its own thread's state, then under EVERY interleaving each thread
   observes exactly the outputs of its own sequential run.  No bound on threads or steps. *)
From Coq Require Import List Arith Bool.
Import ListNotations.

Section Interleave.
Variables G S Op Out : Type.
(* one API call of a thread: reads the shared component and the thread's own sessions *)
Variable step : G -> S -> Op -> G * S * Out.
(* established for libsrtp's session API by Globals.api_writes = [] (regenerated call graph) *)
Hypothesis step_keeps_global : forall g s o, fst (fst (step g s o)) = g.

Definition upd (f : nat -> S) (i : nat) (s : S) : nat -> S := fun j => if Nat.eqb j i then s else f j.

(* a schedule: which thread performs which call next *)
Fixpoint run (g : G) (f : nat -> S) (sch : list (nat * Op)) : G * (nat -> S) * list (nat * Out) :=
  match sch with
  | [] => (g, f, [])
  | (i, o) :: t =>
    let '(g1, s1, out) := step g (f i) o in
    let '(g2, f2, outs) := run g1 (upd f i s1) t in
    (g2, f2, (i, out) :: outs)
  end.

(* thread i alone *)
Fixpoint run_seq (g : G) (s : S) (ops : list Op) : S * list Out :=
  match ops with
  | [] => (s, [])
  | o :: t => let '(_, s1, out) := step g s o in
              let '(s2, outs) := run_seq g s1 t in (s2, out :: outs)
  end.

Definition ops_of (i : nat) (sch : list (nat * Op)) : list Op :=
  map snd (filter (fun p => Nat.eqb (fst p) i) sch).
Definition outs_of (i : nat) (l : list (nat * Out)) : list Out :=
  map snd (filter (fun p => Nat.eqb (fst p) i) l).

Lemma upd_same f i s : upd f i s i = s.
Proof. unfold upd. rewrite Nat.eqb_refl. reflexivity. Qed.
Lemma upd_other f i s j : j <> i -> upd f i s j = f j.
Proof. intros H. unfold upd. destruct (Nat.eqb j i) eqn:E; [apply Nat.eqb_eq in E; contradiction|reflexivity]. Qed.

Theorem interleaving_equals_sequential : forall sch g f i,
  let '(g', f', outs) := run g f sch in
  g' = g /\ f' i = fst (run_seq g (f i) (ops_of i sch)) /\ outs_of i outs = snd (run_seq g (f i) (ops_of i sch)).
Proof.
  induction sch as [|[j o] t IH]; intros g f i; cbn [run].
  - cbn. auto.
  - pose proof (step_keeps_global g (f j) o) as HG.
    destruct (step g (f j) o) as [[g1 s1] out] eqn:E. cbn [fst] in HG. subst g1.
    specialize (IH g (upd f j s1) i).
    destruct (run g (upd f j s1) t) as [[g2 f2] outs] eqn:E2.
    destruct IH as (IH1 & IH2 & IH3).
    unfold ops_of, outs_of in *. cbn [filter fst].
    destruct (Nat.eqb j i) eqn:Eji.
    + apply Nat.eqb_eq in Eji. subst j. cbn [map snd run_seq]. rewrite E.
      rewrite upd_same in IH2, IH3.
      destruct (run_seq g s1 (map snd (filter (fun p => Nat.eqb (fst p) i) t))) as [s2 os]. cbn [fst snd] in *.
      repeat split; [exact IH1|exact IH2|]. f_equal. exact IH3.
    + apply Nat.eqb_neq in Eji. rewrite upd_other in IH2, IH3 by (intros H; apply Eji; symmetry; exact H).
      repeat split; assumption.
Qed.
End Interleave.
