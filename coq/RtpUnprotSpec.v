(* RtpUnprotSpec.v — C12 (SRTP, receiver half): a PURE functional specification of
   srtp_unprotect (no packet buffers, no monad, no alias flag):

     unprotect_pre_fun ss C pkt    everything up to and including the authentication check:
                                   either the data the second phase needs or the error status
     unprotect_post_fun ss u       the effects of an accepted packet: key budget, RFC 6904,
                                   cryptex, decryption, direction, replay window
     unprotect_fun ss C pkt        final session and either the RTP packet or the error status
                                   of srtp_unprotect for a session that holds an explicit stream
                                   for the packet's SSRC (no stream: st_no_ctx is a placeholder,
                                   the template / clone path is outside this specification)

   ss = the session, C = *out_len as passed in, pkt = the len input octets.  Every early exit
   of the model Rtp.unprotect appears here in the same order.  The refinement proofs (the
   monadic model computes exactly these functions, in place and out of place, whatever the
   output block held before) are in RtpUnprotProofs.v. *)
From Coq Require Import NArith ZArith List Bool Lia.
From Srtp Require Import Util Constants KeyLimit Rdb Rdbx Icm World Stream Rtp RtcpSpec RtpSpec.
Import ListNotations.
Local Open Scope Z_scope.

(* ===================================================================== *)
(* 1. the pieces of the first phase                                        *)
(* ===================================================================== *)
(* the tag length used to locate the MKI: that of the stream's first key *)
Definition rtp_tl0 (st : stream) : Z := match s_keys st with k0 :: _ => ak_tag (k_rtp_a k0) | [] => 0 end.

(* index estimate and replay check: (index, delta, "advance" flag) or the status *)
Definition rx_index (st : stream) (seq : Z) : (Z * Z * bool) + Z :=
  let '(est_st, est, delta) := est_index st seq in
  if negb (est_st =? st_ok) && negb (est_st =? st_pkt_idx_adv) then inr est_st
  else if est_st =? st_pkt_idx_adv then inl (est, delta, true)
  else if rdbx_check (s_rdbx st) delta =? st_ok then inl (est, delta, false)
  else inr (rdbx_check (s_rdbx st) delta).

(* srtp_cryptex_unprotect_init: cryptex is in use for this packet iff the stream has it, the
   payload is encrypted, there is a header extension and its profile is one of RFC 9335 *)
Definition rx_cryptex (st : stream) (pkt : bytes) : bool :=
  s_cryptex st && rtp_conf st && (hdr_x pkt =? 1) &&
  ((xtn_profile pkt =? cryptex_one_byte_profile_c) || (xtn_profile pkt =? cryptex_two_byte_profile_c)).

(* first octet that is decrypted as "payload" (out-of-place numbering): behind the extension
   header when cryptex is in use, behind the whole extension otherwise *)
Definition rx_enc_start (st : stream) (pkt : bytes) : Z :=
  if rx_cryptex st pkt then hdr_len pkt + octets_in_rtp_xtn_hdr_c else enc0 pkt.

(* the authentication check: m = authenticated portion, roc = the four ROC octets, t = the tag
   in the packet; the computed tag overwrites the keystream prefix in tmp_tag.  Returns the
   cipher state the decryption starts from. *)
Definition rx_auth (do_auth : bool) (a : akey) (cs0 : cstate) (m roc t : bytes) : cstate + Z :=
  if do_auth then
    match rtcp_rx_prefix cs0 (ak_prefix a) with
    | inr e => inr e
    | inl pre =>
      let computed := auth_compute a (m ++ roc) in
      if SRTP_MAX_TAG_LEN_c <? lenZ computed then inr st_model_oob else
      let tmp_tag := computed ++ drop (length computed) (snd pre) in
      if beqb (take (zn (ak_tag a)) (tmp_tag ++ zeros (zn (ak_tag a)))) t then inl (fst pre)
      else inr st_auth_fail
    end
  else inl cs0.

(* everything up to and including the authentication check.  The record is the model's upre
   with the out-of-place numbering of the encrypted portion (u_inplace = false); the in-place
   numbering under cryptex differs by the length of the CSRC list, see upre_al in
   RtpUnprotProofs.v. *)
Definition unprotect_pre_fun (ss : session) (C : Z) (pkt : bytes) : upre + Z :=
  let len := lenZ pkt in
  if negb (validate_rtp pkt len =? st_ok) then inr (validate_rtp pkt len) else
  let ssrc := hdr_ssrc pkt in
  match list_get (ss_list ss) ssrc with
  | None => inr st_no_ctx
  | Some st =>
    match rx_index st (hdr_seq pkt) with
    | inr e => inr e
    | inl (est, delta, adv) =>
      match receiver_key_st st pkt len (rtp_tl0 st) with
      | inr e => inr e
      | inl (ki, k) =>
        let tag_len := ak_tag (k_rtp_a k) in
        let msz := s_mki_size st in
        let iv := rtp_iv (ck_alg (k_rtp_c k)) ssrc est in
        let es := rx_enc_start st pkt in
        (* the unencrypted header must end before the trailer (size_t arithmetic) *)
        if u64 (len - tag_len - msz) <? es then inr st_parse_err else
        if C <? u64 (len - msz - tag_len) then inr st_buffer_small else
        match rx_auth (rtp_auth st) (k_rtp_a k) (cipher_start (k_rtp_c k) iv)
                      (take (zn (len - tag_len - msz)) pkt) (take 4 (be64 (est * 65536)))
                      (slice (zn (len - tag_len)) (zn tag_len) pkt) with
        | inr e => inr e
        | inl cs1 =>
          inl {| u_pkt := pkt; u_ssrc := ssrc; u_ref := RList ssrc; u_est := est; u_delta := delta; u_adv := adv;
                 u_ki := ki; u_k := k; u_cs := cs1; u_iv := iv;
                 u_enc_start := es; u_enc_len := len - es - msz - tag_len;
                 u_inuse := rx_cryptex st pkt; u_inplace := false |}
        end
      end
    end
  end.

(* ===================================================================== *)
(* 2. the second phase                                                     *)
(* ===================================================================== *)
(* the plain profile that replaces a cryptex one (srtp_cryptex_unprotect_cleanup) *)
Definition plain_profile_of (profile : Z) : option Z :=
  if profile =? cryptex_one_byte_profile_c then Some xtn_hdr_one_byte_profile_c
  else if profile =? cryptex_two_byte_profile_c then Some xtn_hdr_two_byte_profile_c
  else None.

(* decryption of [es, es+el) of p1 (the packet after the RFC 6904 step).  With cryptex the CSRC
   list and everything behind the extension header are ONE run of the cipher, the four octets
   of the extension header stay as they are except that the profile is restored. *)
Definition rx_crypt (conf inuse : bool) (cs : cstate) (es el : Z) (p1 : bytes) : bytes + Z :=
  if inuse then
    let hl := hdr_len p1 in
    let n := zn (4 * hdr_cc p1) in
    let '(s, _, o) := cipher_encrypt cs (slice 12 n p1 ++ slice (zn es) (zn el) p1) in
    if negb (s =? st_ok) then inr st_cipher_fail
    else
      let q := take 12 p1 ++ take n o ++ slice (zn hl) 4 p1 ++ drop n o in
      inl (match plain_profile_of (be16 q (zn hl)) with
           | Some v => splice (zn hl) (be_bytes 2 (Z.to_N v)) q
           | None => q
           end)
  else if conf then
    let '(s, _, o) := cipher_encrypt cs (slice (zn es) (zn el) p1) in
    if negb (s =? st_ok) then inr st_cipher_fail else inl (take (zn es) p1 ++ o)
  else inl (take (zn (es + el)) p1).

(* the packet index enters the replay window *)
Definition rx_commit (st : stream) (est delta : Z) (adv : bool) : stream :=
  if adv then commit_advance st est
  else set_pending (set_rdbx st (rdbx_add (s_rdbx st) delta)) 0.

Definition unprotect_post_fun (ss : session) (u : upre) : session * (bytes + Z) :=
  let ssrc := u_ssrc u in
  match list_get (ss_list ss) ssrc with
  | None => (ss, inr st_fail)
  | Some st =>
    (* key usage budget: the hard limit ends the call with the budget already charged *)
    match charge_fun ss ssrc st (u_ki u) with
    | (ss1, inr e) => (ss1, inr e)
    | (ss1, inl _) =>
      (* RFC 6904: the header-extension elements are decrypted first *)
      match wire_xtn (s_enc_xtn st) (k_xtn_c (u_k u)) (u_iv u) (u_pkt u) with
      | None => (ss1, inr st_parse_err)
      | Some p1 =>
        match rx_crypt (rtp_conf st) (u_inuse u) (u_cs u) (u_enc_start u) (u_enc_len u) p1 with
        | inr e => (ss1, inr e)
        | inl out =>
          let st1 := charged_stream st (u_ki u) in
          let ss2 := dir_session ss1 ssrc st1 dir_srtp_receiver_c in
          let st2 := dir_stream st1 dir_srtp_receiver_c in
          (sess_put ss2 ssrc (rx_commit st2 (u_est u) (u_delta u) (u_adv u)), inl out)
        end
      end
    end
  end.

(* ===================================================================== *)
(* 3. srtp_unprotect                                                       *)
(* ===================================================================== *)
Definition unprotect_fun (ss : session) (C : Z) (pkt : bytes) : session * (bytes + Z) :=
  match unprotect_pre_fun ss C pkt with
  | inr e => (ss, inr e)
  | inl u => unprotect_post_fun ss u
  end.
