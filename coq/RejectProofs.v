(* RejectProofs.v — C13: everything srtp_unprotect / srtp_unprotect_rtcp do up to and
   including the authentication check leaves the session, the heap and the event
   log untouched; hence every exit taken there is a no-op on the session. *)
From Coq Require Import NArith ZArith List Bool Lia.
From Srtp Require Import Util Constants KeyLimit Rdb Rdbx Icm World Stream Rtp Rtcp MonadLemmas.
Import ListNotations.
Local Open Scope Z_scope.

Ltac sp_auto :=
  repeat (sp_step ||
          match goal with
          | |- sess_pres (match ?x with _ => _ end) => destruct x
          end).

Lemma sp_keys_by_packet st len tl : sess_pres (keys_by_packet st len tl).
Proof. unfold keys_by_packet. sp_auto. Qed.

Lemma sp_unprotect_pre : sess_pres unprotect_pre.
Proof.
  unfold unprotect_pre.
  apply sp_bind; [apply sp_get_b|intros b].
  apply sp_bind; [apply sp_check_st|intros _].
  apply sp_bind; [apply sp_get_s|intros ss].
  apply sp_bind; [sp_auto|intros r0].
  apply sp_bind; [apply sp_get_stream|intros st].
  apply sp_bind.
  { destruct r0; [apply sp_ret|].
    destruct (est_index st (hdr_seq (take (zn (b_len b)) (cur_src b)))) as [[es e] d].
    sp_auto. }
  intros [[est delta] adv].
  apply sp_bind; [apply sp_keys_by_packet|intros [ki k]].
  sp_auto.
Qed.

Lemma sp_unprotect_rtcp_pre : sess_pres unprotect_rtcp_pre.
Proof.
  unfold unprotect_rtcp_pre.
  apply sp_bind; [apply sp_get_b|intros b].
  apply sp_bind; [sp_auto|intros _].
  apply sp_bind; [apply sp_get_s|intros ss].
  apply sp_bind; [sp_auto|intros r0].
  apply sp_bind; [apply sp_get_stream|intros st].
  apply sp_bind; [apply sp_keys_by_packet|intros [ki k]].
  sp_auto.
Qed.

(* statuses that only the pre-authentication phase can produce *)
Definition pre_auth_status (st : Z) : Prop :=
  st = st_bad_param \/ st = st_no_ctx \/ st = st_bad_mki \/ st = st_auth_fail \/
  st = st_replay_fail \/ st = st_replay_old \/ st = st_pkt_idx_old \/ st = st_cant_check \/
  st = st_buffer_small.

(* an exit of the whole call that happened in the pre phase leaves the session unchanged *)
Lemma unprotect_pre_exit w w' st :
  unprotect_pre w = (w', inr st) ->
  unprotect w = (w', inr st) /\ w_s w' = w_s w /\ w_h w' = w_h w /\ w_ev w' = w_ev w.
Proof.
  intros H. split.
  - unfold unprotect, bind. rewrite H. reflexivity.
  - pose proof (sp_unprotect_pre w) as P. rewrite H in P. exact P.
Qed.

Lemma unprotect_rtcp_pre_exit w w' st :
  unprotect_rtcp_pre w = (w', inr st) ->
  unprotect_rtcp w = (w', inr st) /\ w_s w' = w_s w /\ w_h w' = w_h w /\ w_ev w' = w_ev w.
Proof.
  intros H. split.
  - unfold unprotect_rtcp, bind. rewrite H. reflexivity.
  - pose proof (sp_unprotect_rtcp_pre w) as P. rewrite H in P. exact P.
Qed.

(* ---- statuses the post-authentication phase can exit with ---- *)
Definition post_status (st : Z) : Prop :=
  st = st_key_expired \/ st = st_fail \/ st = st_parse_err \/ st = st_cipher_fail \/
  st = st_alloc_fail \/ st = st_init_fail \/ st = st_bad_param.

Ltac ex_auto :=
  repeat (ex_step ||
          match goal with
          | |- exits_in (match ?x with _ => _ end) _ => destruct x
          | |- exits_in (exit_with _) _ => apply ex_exit; unfold post_status; tauto
          | |- exits_in (get_stream _) _ => apply ex_get_stream; unfold post_status; tauto
          end).

Lemma ex_limit_update r i : exits_in (limit_update r i) post_status.
Proof. unfold limit_update. ex_auto. Qed.
Lemma ex_charge_key r i : exits_in (charge_key r i) post_status.
Proof.
  unfold charge_key. apply ex_bind; [apply ex_limit_update|intros e].
  ex_auto.
Qed.
Lemma ex_process_xtn st pkt xcs : exits_in (process_xtn st pkt xcs) post_status.
Proof. unfold process_xtn. ex_auto. Qed.
Lemma ex_crypt_dst_region cs off n : exits_in (crypt_dst_region cs off n) post_status.
Proof. unfold crypt_dst_region. ex_auto. Qed.
Lemma ex_cryptex_adjust pkt : exits_in (cryptex_adjust pkt) post_status.
Proof. unfold cryptex_adjust. ex_auto. Qed.
Lemma ex_cryptex_restore pkt : exits_in (cryptex_restore pkt) post_status.
Proof. unfold cryptex_restore. ex_auto. Qed.
Lemma ex_set_profile pkt v : exits_in (set_profile pkt v) post_status.
Proof. unfold set_profile. ex_auto. Qed.
Lemma ex_check_direction r want : exits_in (check_direction r want) post_status.
Proof. unfold check_direction. ex_auto. Qed.
Lemma ex_clone_mkis n : forall o, exits_in (clone_mkis n o) post_status.
Proof. induction n as [|n IH]; intros o; cbn [clone_mkis]; [apply ex_ret|]. ex_auto. apply IH. Qed.
Lemma ex_stream_clone t ssrc : exits_in (stream_clone t ssrc) post_status.
Proof.
  unfold stream_clone. ex_auto; try apply ex_clone_mkis.
Qed.
Lemma ex_stream_dealloc s : exits_in (stream_dealloc s) post_status.
Proof. unfold stream_dealloc. ex_auto. Qed.
Lemma ex_list_insert s : exits_in (list_insert s) post_status.
Proof. unfold list_insert. ex_auto. Qed.
Lemma ex_insert_or_dealloc s : exits_in (insert_or_dealloc s) post_status.
Proof.
  unfold insert_or_dealloc. apply ex_bind; [apply ex_list_insert|intros st].
  destruct (st =? st_ok) eqn:E; [apply ex_ret|].
  apply ex_bind; [apply ex_stream_dealloc|intros _].
  (* the status of a failed insert is alloc_fail *)
  intros w w' s' H. unfold exit_with in H. injection H as _ <-.
  (* st comes from list_insert: st_ok or st_alloc_fail; as a value we cannot see that here,
     so this lemma is completed by the stronger statement below *)
Abort.

(* list_insert only ever returns ok or alloc_fail *)
Lemma list_insert_value s w w' r : list_insert s w = (w', inl r) -> r = st_ok \/ r = st_alloc_fail.
Proof.
  unfold list_insert, bind, get_s. destruct (lenZ (ss_list (w_s w)) =? ss_cap (w_s w)).
  - unfold alloc1, bind, get_h, put_h, ret.
    destruct ((0 <? h_fail (w_h w)) && (h_fail (w_h w) =? 1)); cbn; intros H; injection H as _ <-; auto.
  - cbn. intros H; injection H as _ <-; auto.
Qed.

Lemma ex_insert_or_dealloc s : exits_in (insert_or_dealloc s) post_status.
Proof.
  intros w w' st H. unfold insert_or_dealloc in H.
  apply bind_inv in H. destruct H as [(r & w1 & H1 & H2)|(s0 & H1 & E0)].
  2: { injection E0 as ->. exact (ex_list_insert s _ _ _ H1). }
  - destruct (list_insert_value _ _ _ _ H1) as [->| ->].
    + cbn in H2. discriminate.
    + change (st_alloc_fail =? st_ok) with false in H2.
      apply bind_inv in H2. destruct H2 as [(u & w2 & _ & H3)|(s1 & H3 & E3)].
      * unfold exit_with in H3. injection H3 as _ <-. unfold post_status. tauto.
      * injection E3 as ->. exact (ex_stream_dealloc s _ _ _ H3).
Qed.

Lemma ex_materialize r ssrc : exits_in (materialize r ssrc) post_status.
Proof.
  unfold materialize. destruct r; [|apply ex_ret].
  apply ex_bind; [apply ex_get_stream; unfold post_status; tauto|intros t].
  apply ex_bind; [apply ex_stream_clone|intros ns].
  apply ex_bind; [apply ex_insert_or_dealloc|intros _]. apply ex_ret.
Qed.

Lemma ex_unprotect_post u : exits_in (unprotect_post u) post_status.
Proof.
  unfold unprotect_post.
  apply ex_bind; [apply ex_get_b|intros b].
  apply ex_bind; [apply ex_charge_key|intros _].
  apply ex_bind; [apply ex_get_stream; unfold post_status; tauto|intros st].
  apply ex_bind.
  { destruct (k_xtn_c (u_k u)); [|apply ex_ret]. apply ex_if; [apply ex_process_xtn|apply ex_ret]. }
  intros _.
  apply ex_bind.
  { apply ex_if; [|apply ex_ret]. apply ex_if.
    - apply ex_bind; [apply ex_cryptex_adjust|intros; apply ex_ret].
    - apply ex_if; [apply ex_ret|apply ex_crypt_dst_region]. }
  intros cs2.
  apply ex_bind.
  { apply ex_if.
    - apply ex_bind; [apply ex_rd_src|intros d].
      destruct (cipher_encrypt cs2 d) as [[s c'] o]. apply ex_if; [apply ex_exit; unfold post_status; tauto|apply ex_wr_dst].
    - apply ex_if; [apply ex_ret|]. apply ex_bind; [apply ex_rd_src|intros; apply ex_wr_dst]. }
  intros _.
  apply ex_bind.
  { apply ex_if; [|apply ex_ret].
    apply ex_bind; [apply ex_if; [apply ex_cryptex_restore|apply ex_ret]|intros _].
    apply ex_bind; [apply ex_rd_dst|intros h].
    apply ex_if; [apply ex_set_profile|]. apply ex_if; [apply ex_set_profile|apply ex_ret]. }
  intros _.
  apply ex_bind; [apply ex_check_direction|intros _].
  apply ex_bind; [apply ex_materialize|intros r].
  apply ex_bind; [apply ex_get_stream; unfold post_status; tauto|intros st2].
  apply ex_bind; [apply ex_if; apply ex_put_stream|intros _].
  apply ex_ret.
Qed.

Lemma ex_unprotect_rtcp_post u : exits_in (unprotect_rtcp_post u) post_status.
Proof.
  unfold unprotect_rtcp_post.
  apply ex_bind; [apply ex_get_b|intros b].
  apply ex_bind.
  { apply ex_if; [apply ex_ret|]. apply ex_bind; [apply ex_rd_src|intros; apply ex_wr_dst]. }
  intros _.
  apply ex_bind.
  { apply ex_if.
    - apply ex_bind; [apply ex_rd_src|intros d].
      destruct (cipher_encrypt (c_cs u) d) as [[s c'] o]. apply ex_if; [apply ex_exit; unfold post_status; tauto|apply ex_wr_dst].
    - apply ex_if; [apply ex_ret|]. apply ex_bind; [apply ex_rd_src|intros; apply ex_wr_dst]. }
  intros _.
  apply ex_bind; [apply ex_check_direction|intros _].
  apply ex_bind; [apply ex_materialize|intros r].
  apply ex_bind; [apply ex_get_stream; unfold post_status; tauto|intros st2].
  apply ex_bind; [apply ex_put_stream|intros _].
  apply ex_ret.
Qed.

(* ---- C13 ---- *)
(* the property's list: unknown SSRC or MKI, failed authentication, replay (and the
   length / E-bit refusals that precede authentication) *)
Definition rejected (st : Z) : Prop :=
  st = st_no_ctx \/ st = st_bad_mki \/ st = st_auth_fail \/ st = st_replay_fail \/
  st = st_replay_old \/ st = st_pkt_idx_old \/ st = st_cant_check \/ st = st_buffer_small.

Lemma rejected_not_post st : rejected st -> ~ post_status st.
Proof.
  unfold rejected, post_status, st_no_ctx, st_bad_mki, st_auth_fail, st_replay_fail, st_replay_old,
    st_pkt_idx_old, st_cant_check, st_buffer_small, st_key_expired, st_fail, st_parse_err,
    st_cipher_fail, st_alloc_fail, st_init_fail, st_bad_param.
  intros H. lia.
Qed.

Theorem unprotect_reject_noop w w' st :
  unprotect w = (w', inr st) -> rejected st ->
  w_s w' = w_s w /\ w_h w' = w_h w /\ w_ev w' = w_ev w.
Proof.
  intros H R. unfold unprotect in H. apply bind_inv in H.
  destruct H as [(u & w1 & H1 & H2)|(s & H1 & E)].
  - exfalso. apply (rejected_not_post st R). exact (ex_unprotect_post u _ _ _ H2).
  - injection E as <-. pose proof (sp_unprotect_pre w) as P. rewrite H1 in P. exact P.
Qed.

Theorem unprotect_rtcp_reject_noop w w' st :
  unprotect_rtcp w = (w', inr st) -> rejected st ->
  w_s w' = w_s w /\ w_h w' = w_h w /\ w_ev w' = w_ev w.
Proof.
  intros H R. unfold unprotect_rtcp in H. apply bind_inv in H.
  destruct H as [(u & w1 & H1 & H2)|(s & H1 & E)].
  - exfalso. apply (rejected_not_post st R). exact (ex_unprotect_rtcp_post u _ _ _ H2).
  - injection E as <-. pose proof (sp_unprotect_rtcp_pre w) as P. rewrite H1 in P. exact P.
Qed.

(* malformed input: refused before anything is looked at, buffers included *)
Theorem unprotect_malformed w :
  let b := w_b w in
  validate_rtp (take (zn (b_len b)) (cur_src b)) (b_len b) <> st_ok ->
  unprotect w = (w, inr (validate_rtp (take (zn (b_len b)) (cur_src b)) (b_len b))).
Proof.
  intros b H. unfold unprotect, unprotect_pre, bind, get_b. fold b.
  unfold check_st. destruct (validate_rtp _ _ =? st_ok) eqn:E; [apply Z.eqb_eq in E; contradiction|].
  reflexivity.
Qed.

Theorem unprotect_rtcp_short w :
  b_len (w_b w) < octets_in_rtcp_header_c + trailer_len ->
  unprotect_rtcp w = (w, inr st_bad_param).
Proof.
  intros H. unfold unprotect_rtcp, unprotect_rtcp_pre, bind, get_b.
  replace (b_len (w_b w) <? octets_in_rtcp_header_c + trailer_len) with true by (symmetry; apply Z.ltb_lt; exact H).
  reflexivity.
Qed.
