(* Sha1Proofs.v -- the buffering / padding logic of sha1.c (Sha1Model.v)
   computes FIPS 180-4 SHA-1 ([Srtp.Crypto.SHA1]) for every message shorter
   than 2^29 octets and every chunking of the message into update calls.

   Main statements:
     sha1m_update_app        chunking independence of srtp_sha1_update
     sha1m_update_chunks     any list of updates = one update on the concatenation
     sha1m_final_spec        final (update init msg) = fold of C over the FIPS
                             padding of msg            (|msg| < 2^29 octets)
     sha1m_chunks_final_spec the same for an arbitrary chunking
     sha1m_digest_correct    C := sha1_compress : digest = sha1 (concat chunks) *)

From Coq Require Import NArith ZArith List Arith Bool Lia ZifyBool ZifyN ZifyNat.
From Srtp Require Import Util Sha1Model.
From Srtp.Crypto Require Import SHA1.
Import ListNotations.

Ltac Zify.zify_post_hook ::= Z.div_mod_to_equations.

(* ------------------------------------------------------------------ *)
(* List helpers                                                        *)
(* ------------------------------------------------------------------ *)

Lemma skipn_app_le :
  forall (A : Type) (n : nat) (x y : list A),
    (n <= length x)%nat -> skipn n (x ++ y) = skipn n x ++ y.
Proof.
  intros A n x y Hle. rewrite skipn_app.
  replace (n - length x)%nat with 0%nat by lia. reflexivity.
Qed.

Lemma skipn_app_ge :
  forall (A : Type) (n : nat) (x y : list A),
    (length x <= n)%nat -> skipn n (x ++ y) = skipn (n - length x) y.
Proof.
  intros A n x y Hle. rewrite skipn_app.
  rewrite skipn_all2 by exact Hle. reflexivity.
Qed.

Lemma firstn_app_exact :
  forall (A : Type) (n : nat) (x y : list A),
    length x = n -> firstn n (x ++ y) = x.
Proof.
  intros A n x y Hlen. subst n. apply firstn_app_len.
Qed.

Lemma skipn_app_exact :
  forall (A : Type) (n : nat) (x y : list A),
    length x = n -> skipn n (x ++ y) = y.
Proof.
  intros A n x y Hlen. subst n. apply skipn_app_len.
Qed.

(* The octets left over after the complete 64-octet blocks of [x]. *)
Definition rest64 (x : bytes) : bytes := skipn (64 * (length x / 64)) x.

Lemma rest64_length : forall x, length (rest64 x) = (length x mod 64)%nat.
Proof.
  intros x. unfold rest64. rewrite skipn_length. lia.
Qed.

Lemma rest64_short : forall x, (length x < 64)%nat -> rest64 x = x.
Proof.
  intros x Hlt. unfold rest64.
  rewrite Nat.div_small by exact Hlt. reflexivity.
Qed.

Lemma rest64_block :
  forall blk x, length blk = 64%nat -> rest64 (blk ++ x) = rest64 x.
Proof.
  intros blk x Hlen. unfold rest64.
  rewrite app_length, Hlen.
  replace ((64 + length x) / 64)%nat with (S (length x / 64)) by lia.
  rewrite skipn_app_ge by lia.
  f_equal. lia.
Qed.

Lemma rest64_app :
  forall x y, rest64 (x ++ y) = rest64 (rest64 x ++ y).
Proof.
  intros x.
  assert (Hgen : forall n x y, (length x < 64 * S n)%nat ->
                               rest64 (x ++ y) = rest64 (rest64 x ++ y)).
  { induction n as [|n IHn]; intros x0 y Hlt.
    - rewrite (rest64_short x0) by lia. reflexivity.
    - destruct (Nat.ltb (length x0) 64) eqn:Hcmp.
      + apply Nat.ltb_lt in Hcmp. rewrite (rest64_short x0) by lia. reflexivity.
      + apply Nat.ltb_ge in Hcmp.
        rewrite <- (firstn_skipn 64 x0).
        assert (Hblk : length (firstn 64 x0) = 64%nat)
          by (apply firstn_length_le; exact Hcmp).
        rewrite <- app_assoc.
        rewrite !(rest64_block (firstn 64 x0)) by exact Hblk.
        apply IHn. rewrite skipn_length. lia. }
  intros y. apply (Hgen (length x)). lia.
Qed.

Lemma repeat_split :
  forall (A : Type) (a : A) (n m k : nat),
    k = (n + m)%nat -> repeat a k = repeat a n ++ repeat a m.
Proof.
  intros A a n m k Hk. subst k. apply repeat_app.
Qed.

(* ------------------------------------------------------------------ *)
(* uint32_t arithmetic of the bit counter                              *)
(* ------------------------------------------------------------------ *)

Lemma wrap32_count :
  forall n len : N,
    wrap32 (n + wrap32 (wrap32 len * 8)) = wrap32 (n + 8 * len).
Proof.
  intros n len. unfold wrap32. lia.
Qed.

Lemma wrap32_add :
  forall n a b : N,
    wrap32 (wrap32 (n + 8 * a) + 8 * b) = wrap32 (n + 8 * (a + b)).
Proof.
  intros n a b. unfold wrap32. lia.
Qed.

Lemma wrap32_small : forall x : N, (x < 4294967296)%N -> wrap32 x = x.
Proof.
  intros x Hlt. unfold wrap32. apply N.mod_small. exact Hlt.
Qed.

(* The 64-bit length field of FIPS 180-4, for a bit count below 2^32, is
   four zero octets followed by the 32-bit word the C code stores in W[15]. *)
Lemma be_bytes_8_4 :
  forall x : N, (x < 4294967296)%N ->
    be_bytes 8 x = repeat 0%N 4 ++ be_bytes 4 x.
Proof.
  intros x Hlt.
  assert (Hhi : N.shiftr (N.shiftr (N.shiftr (N.shiftr x 8) 8) 8) 8 = 0%N).
  { rewrite !N.shiftr_shiftr. change (8 + 8 + 8 + 8)%N with 32%N.
    rewrite N.shiftr_div_pow2. apply N.div_small.
    change (2 ^ 32)%N with 4294967296%N. exact Hlt. }
  do 8 rewrite be_bytes_S.
  rewrite Hhi.
  do 4 (rewrite (be_bytes_S _ x) || rewrite be_bytes_S).
  rewrite !be_bytes_0.
  cbn [N.shiftr N.land Pos.iter app repeat].
  repeat rewrite <- app_assoc. reflexivity.
Qed.

Section Sha1Proofs.

Variable C : list N -> list N -> list N.

Local Notation mblocks := (mblocks C).
Local Notation mblocks_n := (mblocks_n C).
Local Notation sha1m_loop := (sha1m_loop C).
Local Notation sha1m_update := (sha1m_update C).
Local Notation sha1m_final := (sha1m_final C).

(* ------------------------------------------------------------------ *)
(* The reference iteration                                             *)
(* ------------------------------------------------------------------ *)

Lemma mblocks_short :
  forall h data, (length data < 64)%nat -> mblocks h data = h.
Proof.
  intros h data Hlt. unfold Sha1Model.mblocks.
  rewrite Nat.div_small by exact Hlt. reflexivity.
Qed.

Lemma mblocks_block :
  forall h blk rest,
    length blk = 64%nat -> mblocks h (blk ++ rest) = mblocks (C h blk) rest.
Proof.
  intros h blk rest Hlen. unfold Sha1Model.mblocks.
  rewrite app_length, Hlen.
  replace ((64 + length rest) / 64)%nat with (S (length rest / 64)) by lia.
  cbn [Sha1Model.mblocks_n].
  rewrite (firstn_app_exact _ 64 blk rest Hlen).
  rewrite (skipn_app_exact _ 64 blk rest Hlen).
  reflexivity.
Qed.

Lemma mblocks_one :
  forall h blk, length blk = 64%nat -> mblocks h blk = C h blk.
Proof.
  intros h blk Hlen.
  rewrite <- (app_nil_r blk) at 1.
  rewrite mblocks_block by exact Hlen.
  apply mblocks_short. cbn [length]. lia.
Qed.

(* Processing x ++ y = processing the blocks of x, then the blocks of
   (left-over of x) ++ y. *)
Lemma mblocks_app :
  forall h x y, mblocks h (x ++ y) = mblocks (mblocks h x) (rest64 x ++ y).
Proof.
  intros h x.
  assert (Hgen : forall n h x y, (length x < 64 * S n)%nat ->
            mblocks h (x ++ y) = mblocks (mblocks h x) (rest64 x ++ y)).
  { induction n as [|n IHn]; intros h0 x0 y Hlt.
    - rewrite (rest64_short x0), (mblocks_short h0 x0) by lia. reflexivity.
    - destruct (Nat.ltb (length x0) 64) eqn:Hcmp.
      + apply Nat.ltb_lt in Hcmp.
        rewrite (rest64_short x0), (mblocks_short h0 x0) by lia. reflexivity.
      + apply Nat.ltb_ge in Hcmp.
        rewrite <- (firstn_skipn 64 x0).
        assert (Hblk : length (firstn 64 x0) = 64%nat)
          by (apply firstn_length_le; exact Hcmp).
        rewrite (rest64_block (firstn 64 x0)) by exact Hblk.
        rewrite <- app_assoc.
        rewrite !(mblocks_block h0 (firstn 64 x0)) by exact Hblk.
        apply IHn. rewrite skipn_length. lia. }
  intros y. apply (Hgen (length x)). lia.
Qed.

(* ------------------------------------------------------------------ *)
(* srtp_sha1_update                                                    *)
(* ------------------------------------------------------------------ *)

(* The while loop, for any sufficient fuel. *)
Lemma sha1m_loop_spec :
  forall fuel h m data,
    (length m < 64)%nat -> (length data <= fuel)%nat ->
    sha1m_loop fuel h m data = (mblocks h (m ++ data), rest64 (m ++ data)).
Proof.
  induction fuel as [|fuel IHfuel]; intros h m data Hm Hfuel.
  - destruct data as [|d data']; [|cbn [length] in Hfuel; lia].
    cbn [Sha1Model.sha1m_loop]. rewrite app_nil_r.
    rewrite mblocks_short, rest64_short by exact Hm. reflexivity.
  - destruct data as [|d data'].
    + cbn [Sha1Model.sha1m_loop]. rewrite app_nil_r.
      rewrite mblocks_short, rest64_short by exact Hm. reflexivity.
    + cbn [Sha1Model.sha1m_loop].
      remember (d :: data') as data eqn:Hdata.
      assert (Hpos : (1 <= length data)%nat) by (subst data; cbn [length]; lia).
      destruct (64 <=? length data + length m)%nat eqn:Hfull.
      * apply Nat.leb_le in Hfull.
        assert (Hk : length (firstn (64 - length m) data) = (64 - length m)%nat)
          by (apply firstn_length_le; lia).
        assert (Hblk : length (m ++ firstn (64 - length m) data) = 64%nat)
          by (rewrite app_length, Hk; lia).
        rewrite IHfuel; [| cbn [length]; lia | rewrite skipn_length; lia].
        cbn [app].
        replace (m ++ data)
          with ((m ++ firstn (64 - length m) data) ++
                skipn (64 - length m) data)
          by (rewrite <- app_assoc, firstn_skipn; reflexivity).
        rewrite mblocks_block by exact Hblk.
        rewrite rest64_block by exact Hblk.
        reflexivity.
      * apply Nat.leb_gt in Hfull.
        rewrite mblocks_short, rest64_short by (rewrite app_length; lia).
        reflexivity.
Qed.

(* Closed form of one update call. *)
Lemma sha1m_update_spec :
  forall c data,
    sha1ctx_ok c ->
    sha1m_update c data =
    {| ctx_H := mblocks (ctx_H c) (ctx_M c ++ data);
       ctx_M := rest64 (ctx_M c ++ data);
       ctx_nbits := wrap32 (ctx_nbits c + 8 * N.of_nat (length data)) |}.
Proof.
  intros c data Hok. unfold sha1ctx_ok in Hok.
  unfold Sha1Model.sha1m_update.
  rewrite sha1m_loop_spec by (exact Hok || lia).
  rewrite wrap32_count. reflexivity.
Qed.

Lemma sha1m_init_ok : sha1ctx_ok sha1m_init.
Proof. unfold sha1ctx_ok. cbn [sha1m_init ctx_M length]. lia. Qed.

(* octets_in_buffer < 64 is preserved *)
Lemma sha1m_update_ok :
  forall c data, sha1ctx_ok c -> sha1ctx_ok (sha1m_update c data).
Proof.
  intros c data Hok. rewrite sha1m_update_spec by exact Hok.
  unfold sha1ctx_ok. cbn [ctx_M]. rewrite rest64_length.
  apply Nat.mod_upper_bound. discriminate.
Qed.

(* Chunking independence. *)
Theorem sha1m_update_app :
  forall c a b,
    sha1ctx_ok c ->
    sha1m_update (sha1m_update c a) b = sha1m_update c (a ++ b).
Proof.
  intros c a b Hok.
  rewrite (sha1m_update_spec (sha1m_update c a) b)
    by (apply sha1m_update_ok; exact Hok).
  rewrite (sha1m_update_spec c a) by exact Hok.
  rewrite (sha1m_update_spec c (a ++ b)) by exact Hok.
  cbn [ctx_H ctx_M ctx_nbits].
  rewrite (app_assoc (ctx_M c) a b).
  rewrite <- mblocks_app, <- rest64_app.
  rewrite wrap32_add, app_length, Nat2N.inj_add.
  reflexivity.
Qed.

(* Any sequence of update calls is one update on the concatenation. *)
Lemma sha1m_update_chunks_from :
  forall chunks c a,
    sha1ctx_ok c ->
    fold_left sha1m_update chunks (sha1m_update c a) =
    sha1m_update c (a ++ concat chunks).
Proof.
  induction chunks as [|x chunks IHchunks]; intros c a Hok.
  - cbn [fold_left concat]. rewrite app_nil_r. reflexivity.
  - cbn [fold_left concat].
    rewrite sha1m_update_app by exact Hok.
    rewrite IHchunks by exact Hok.
    rewrite app_assoc. reflexivity.
Qed.

Lemma sha1m_update_init_nil : sha1m_update sha1m_init [] = sha1m_init.
Proof. reflexivity. Qed.

Theorem sha1m_update_chunks :
  forall chunks,
    fold_left sha1m_update chunks sha1m_init =
    sha1m_update sha1m_init (concat chunks).
Proof.
  intros chunks.
  rewrite <- sha1m_update_init_nil at 1.
  rewrite sha1m_update_chunks_from by exact sha1m_init_ok.
  reflexivity.
Qed.

Lemma sha1m_chunks_ok :
  forall chunks c,
    sha1ctx_ok c -> sha1ctx_ok (fold_left sha1m_update chunks c).
Proof.
  induction chunks as [|x chunks IHchunks]; intros c Hok.
  - exact Hok.
  - cbn [fold_left]. apply IHchunks. apply sha1m_update_ok. exact Hok.
Qed.

(* ------------------------------------------------------------------ *)
(* srtp_sha1_final                                                     *)
(* ------------------------------------------------------------------ *)

(* What FIPS 180-4 appends to a message of [len] octets. *)
Definition pad_tail (len : N) : bytes :=
  [0x80%N] ++ repeat 0%N (sha1_pad_zeros len) ++ be_bytes 8 (8 * len).

Lemma sha1_pad_tail :
  forall msg, sha1_pad msg = msg ++ pad_tail (N.of_nat (length msg)).
Proof. reflexivity. Qed.

(* One-block case: fewer than 56 octets buffered. *)
Lemma final_blocks_lt56 :
  forall h m len,
    (length m < 56)%nat ->
    (len mod 64 = N.of_nat (length m))%N ->
    (len < 2 ^ 29)%N ->
    mblocks h (m ++ pad_tail len) =
    C h (m ++ [0x80%N] ++ repeat 0%N (59 - length m) ++ be_bytes 4 (8 * len)).
Proof.
  intros h m len Hm Hmod Hlen.
  change (2 ^ 29)%N with 536870912%N in Hlen.
  unfold pad_tail.
  assert (Hz : sha1_pad_zeros len = (55 - length m)%nat)
    by (unfold sha1_pad_zeros; lia).
  rewrite Hz, be_bytes_8_4 by lia.
  rewrite (repeat_split _ 0%N (55 - length m) 4 (59 - length m)) by lia.
  repeat rewrite <- app_assoc.
  apply mblocks_one.
  repeat rewrite app_length. rewrite !repeat_length, be_bytes_length.
  cbn [length]. lia.
Qed.

(* Two-block case: 56..63 octets buffered. *)
Lemma final_blocks_ge56 :
  forall h m len,
    (56 <= length m < 64)%nat ->
    (len mod 64 = N.of_nat (length m))%N ->
    (len < 2 ^ 29)%N ->
    mblocks h (m ++ pad_tail len) =
    C (C h (m ++ [0x80%N] ++ repeat 0%N (63 - length m)))
      (repeat 0%N 60 ++ be_bytes 4 (8 * len)).
Proof.
  intros h m len Hm Hmod Hlen.
  change (2 ^ 29)%N with 536870912%N in Hlen.
  unfold pad_tail.
  assert (Hz : sha1_pad_zeros len = (119 - length m)%nat)
    by (unfold sha1_pad_zeros; lia).
  rewrite Hz, be_bytes_8_4 by lia.
  rewrite (repeat_split _ 0%N (63 - length m) 56 (119 - length m)) by lia.
  rewrite (repeat_split _ 0%N 56 4 60) by lia.
  assert (Hblk : length (m ++ [0x80%N] ++ repeat 0%N (63 - length m)) = 64%nat).
  { repeat rewrite app_length. rewrite repeat_length. cbn [length]. lia. }
  replace (m ++ [0x80%N] ++ (repeat 0%N (63 - length m) ++ repeat 0%N 56) ++
             repeat 0%N 4 ++ be_bytes 4 (8 * len))
    with ((m ++ [0x80%N] ++ repeat 0%N (63 - length m)) ++
          ((repeat 0%N 56 ++ repeat 0%N 4) ++ be_bytes 4 (8 * len)))
    by (repeat rewrite <- app_assoc; reflexivity).
  rewrite mblocks_block by exact Hblk.
  apply mblocks_one.
  repeat rewrite app_length. rewrite !repeat_length, be_bytes_length. lia.
Qed.

(* Final on the context reached by hashing [msg] from chaining value [h0]
   equals the reference iteration over the FIPS padding of [msg]. *)
Lemma sha1m_final_update_from :
  forall h0 msg,
    (N.of_nat (length msg) < 2 ^ 29)%N ->
    sha1m_final {| ctx_H := mblocks h0 msg;
                   ctx_M := rest64 msg;
                   ctx_nbits := wrap32 (0 + 8 * N.of_nat (length msg)) |} =
    mblocks h0 (sha1_pad msg).
Proof.
  intros h0 msg Hlen.
  rewrite sha1_pad_tail, mblocks_app.
  assert (Hlen' : (N.of_nat (length msg) < 536870912)%N) by exact Hlen.
  assert (Hr : length (rest64 msg) = (length msg mod 64)%nat)
    by apply rest64_length.
  assert (Hmod : (N.of_nat (length msg) mod 64 =
                  N.of_nat (length (rest64 msg)))%N) by (rewrite Hr; lia).
  assert (Hr64 : (length (rest64 msg) < 64)%nat) by lia.
  unfold Sha1Model.sha1m_final. cbn [ctx_H ctx_M ctx_nbits].
  rewrite wrap32_small by lia. rewrite N.add_0_l.
  destruct (length (rest64 msg) <? 56)%nat eqn:Hcase.
  - apply Nat.ltb_lt in Hcase.
    rewrite final_blocks_lt56 by (exact Hcase || exact Hmod || exact Hlen).
    reflexivity.
  - apply Nat.ltb_ge in Hcase.
    rewrite final_blocks_ge56 by (lia || exact Hmod || exact Hlen).
    reflexivity.
Qed.

Theorem sha1m_final_spec :
  forall msg,
    (N.of_nat (length msg) < 2 ^ 29)%N ->
    sha1m_final (sha1m_update sha1m_init msg) = mblocks sha1_init (sha1_pad msg).
Proof.
  intros msg Hlen.
  rewrite sha1m_update_spec by exact sha1m_init_ok.
  cbn [sha1m_init ctx_H ctx_M ctx_nbits app].
  apply sha1m_final_update_from. exact Hlen.
Qed.

(* ... for every chunking of the message *)
Theorem sha1m_chunks_final_spec :
  forall chunks,
    (N.of_nat (length (concat chunks)) < 2 ^ 29)%N ->
    sha1m_final (fold_left sha1m_update chunks sha1m_init) =
    mblocks sha1_init (sha1_pad (concat chunks)).
Proof.
  intros chunks Hlen.
  rewrite sha1m_update_chunks. apply sha1m_final_spec. exact Hlen.
Qed.

End Sha1Proofs.

Print Assumptions sha1m_update_app.
Print Assumptions sha1m_update_chunks.
Print Assumptions sha1m_final_spec.
Print Assumptions sha1m_chunks_final_spec.

(* ------------------------------------------------------------------ *)
(* Instance: C := sha1_compress (srtp_sha1_core)                       *)
(* ------------------------------------------------------------------ *)

Lemma mblocks_n_sha1 :
  forall n h data, mblocks_n sha1_compress n h data = sha1_blocks_n n h data.
Proof.
  induction n as [|n IHn]; intros h data.
  - reflexivity.
  - cbn [mblocks_n sha1_blocks_n]. apply IHn.
Qed.

Lemma mblocks_sha1 :
  forall h data, mblocks sha1_compress h data = sha1_blocks h data.
Proof.
  intros h data. unfold mblocks, sha1_blocks. apply mblocks_n_sha1.
Qed.

(* init, any number of updates, final: the FIPS 180-4 digest of the
   concatenation (as octets, the way srtp_sha1_final stores output[0..4]). *)
Theorem sha1m_digest_correct :
  forall chunks,
    (N.of_nat (length (concat chunks)) < 2 ^ 29)%N ->
    sha1_words_to_bytes
      (sha1m_final sha1_compress
         (fold_left (sha1m_update sha1_compress) chunks sha1m_init)) =
    sha1 (concat chunks).
Proof.
  intros chunks Hlen.
  rewrite sha1m_chunks_final_spec by exact Hlen.
  rewrite mblocks_sha1. reflexivity.
Qed.

Print Assumptions sha1m_digest_correct.

Corollary sha1m_digest_correct' :
  forall chunks,
    (N.of_nat (length (concat chunks)) < 2 ^ 29)%N ->
    sha1m_digest sha1_compress chunks = sha1 (concat chunks).
Proof. exact sha1m_digest_correct. Qed.

(* Length of the result (needed by the HMAC outer hash: 20 octets). *)
Lemma sha1m_final_length :
  forall (C : list N -> list N -> list N),
    (forall h b, length (C h b) = 5%nat) ->
    forall c, length (sha1m_final C c) = 5%nat.
Proof.
  intros C HC c. unfold sha1m_final.
  destruct (length (ctx_M c) <? 56)%nat eqn:Hcase; apply HC.
Qed.

(* ------------------------------------------------------------------ *)
(* Non-vacuity: concrete runs of the model against [sha1]              *)
(* ------------------------------------------------------------------ *)

(* msg(n) = 0,1,...,n-1 (mod 256) *)
Definition test_msg (n : nat) : bytes :=
  map (fun i => (N.of_nat i mod 256)%N) (seq 0 n).

(* cut [l] into chunks of the given sizes, remainder as a last chunk *)
Fixpoint chop (sizes : list nat) (l : bytes) : list bytes :=
  match sizes with
  | [] => [l]
  | s :: sizes' => firstn s l :: chop sizes' (skipn s l)
  end.

Definition digest_ok (n : nat) (sizes : list nat) : bool :=
  beqb (sha1m_digest sha1_compress (chop sizes (test_msg n)))
       (sha1 (test_msg n)).

(* lengths around the one-block / two-block boundary, odd chunkings,
   including empty chunks and chunks crossing block boundaries *)
Example sha1m_digest_examples :
  forallb (fun n => digest_ok n [1; 0; 7; 13; 33; 3; 61])
          [0; 1; 3; 54; 55; 56; 57; 59; 60; 63; 64; 65;
           119; 120; 121; 127; 128; 129; 200]%nat = true.
Proof. vm_compute. reflexivity. Qed.

Example sha1m_digest_examples_bytewise :
  forallb (fun n => digest_ok n (repeat 1%nat n))
          [55; 56; 63; 64; 119; 120]%nat = true.
Proof. vm_compute. reflexivity. Qed.

Example sha1m_digest_examples_oneshot :
  forallb (fun n => digest_ok n [])
          [0; 55; 56; 63; 64; 119; 120; 128]%nat = true.
Proof. vm_compute. reflexivity. Qed.

(* "abc" through the model *)
Example sha1m_abc :
  sha1m_digest sha1_compress [[0x61%N]; []; [0x62%N; 0x63%N]] =
  [0xa9;0x99;0x3e;0x36;0x47;0x06;0x81;0x6a;0xba;0x3e;
   0x25;0x71;0x78;0x50;0xc2;0x6c;0x9c;0xd0;0xd8;0x9d]%N.
Proof. vm_compute. reflexivity. Qed.

(* The contexts in the 56- and 63-octet cases really take the two-block
   branch, the 55-octet case the one-block branch. *)
Example sha1m_branch_taken :
  map (fun n => (length (ctx_M (sha1m_update sha1_compress sha1m_init
                                  (test_msg n))) <? 56)%nat)
      [55; 56; 63; 64; 119; 120]%nat
  = [true; false; false; true; true; false].
Proof. vm_compute. reflexivity. Qed.

(* Word-level construction of W[0..15] in srtp_sha1_final (the switch on
   octets_in_buffer % 4 with its masks), transcribed literally as
   [sha1m_final_W]: for every octets_in_buffer, a buffer whose 64 octets are
   all non-zero (so stale octets would show) and an "uninitialised" value for
   W that would show too, the words are exactly the block [sha1m_final]
   passes to the compression function.  A check by computation, not a
   symbolic proof. *)
Definition stale_buf : bytes := map (fun i => (255 - N.of_nat i)%N) (seq 0 64).

Example sha1m_final_W_lt56 :
  forallb (fun n =>
    beqb (sha1_words_to_bytes (sha1m_final_W 0xdeadbeef stale_buf n 0x01020304))
         (firstn n stale_buf ++ [0x80%N] ++ repeat 0%N (59 - n) ++
          be_bytes 4 0x01020304))
    (seq 0 56) = true.
Proof. vm_compute. reflexivity. Qed.

Example sha1m_final_W_ge56 :
  forallb (fun n =>
    beqb (sha1_words_to_bytes (sha1m_final_W 0xdeadbeef stale_buf n 0x01020304))
         (firstn n stale_buf ++ [0x80%N] ++ repeat 0%N (63 - n)))
    (seq 56 8) = true.
Proof. vm_compute. reflexivity. Qed.

(* Outside the premise (documented, fine): the 32-bit counter wraps at 2^29
   octets.  Shown on the counter only (no 512 MiB list is built). *)
Example sha1m_counter_wraps :
  wrap32 (0 + wrap32 (wrap32 (2 ^ 29) * 8)) = 0%N.
Proof. vm_compute. reflexivity. Qed.
