(* AES-GCM (NIST SP 800-38D), executable Gallina, stdlib only.

   Representation: a byte is an [N], a byte string is a [list N].
   Imports [Srtp.Crypto.CTR] ([be_bytes], [xor_bytes]) and [Srtp.Crypto.AES]
   (compile CTR.v and AES.v first).

   A 128-bit block is also handled as a single [N], most significant octet
   first ([bytes_to_N] / [be_bytes 16]): the leftmost bit of the block
   (x_0 in SP 800-38D 6.3) is bit 127 of the number, the rightmost bit
   (x_127) is bit 0.  With this convention the "right shift" of the
   standard is [N.div2] and R = 11100001 || 0^120 is [0xE1 << 120].

   Conventions for inputs outside the intended domain (all functions are
   total):
   - [bytes_to_N] does not mask its elements: an element >= 256 overlaps
     the octets on its left.  [gf_mul] accepts numbers of any size (bits
     above bit 127 of the first operand are ignored).
   - [inc32 cb] keeps the first 12 octets of [cb] and re-encodes the rest,
     read as a big-endian number, plus one, on exactly 4 octets.
   - [gcm_encrypt] accepts any [taglen]; the tag is [firstn taglen] of the
     16-octet full tag (so at most 16 octets).  SP 800-38D only allows
     16, 15, 14, 13, 12, 8 or 4 octets; this is not checked here.
   - [gcm_decrypt] compares the given tag with the first [length tag]
     octets of the recomputed full tag: a tag longer than 16 octets never
     verifies and the empty tag always verifies; callers must fix the tag
     length themselves.
   - No limit on the lengths of the inputs is enforced (the standard
     requires len(P) <= 2^39 - 256 bits etc.).

   Cost: [gf_mul] is 128 steps of [N.testbit] / [N.lxor] / [N.div2] on
   128-bit numbers; GHASH does one [gf_mul] per 16 octets.  Measured in
   this sandbox for a 1200-octet plaintext with 12 octets of AAD:
   [vm_compute] 0.35 s for [gcm_encrypt] (GHASH 0.09 s, GCTR/AES 0.14 s),
   1.1 s for 4096 octets; extracted with ExtrOcamlBasic only and compiled
   with ocamlopt, 0.05 s per 1200-octet [gcm_encrypt] (GHASH 0.03 s).

   Tests (end of file): the building blocks, McGrew-Viega test cases 1-6
   and 13-18, the libsrtp self-test vectors, and cases generated with
   OpenSSL 3.5. *)

From Coq Require Import NArith List Arith Lia Bool.
From Srtp.Crypto Require Import CTR AES.
Import ListNotations.
Local Open Scope N_scope.

(* ------------------------------------------------------------------ *)
(* Blocks as numbers                                                  *)
(* ------------------------------------------------------------------ *)

(* Big-endian decoding: [bytes_to_N [b0; ...; bk]] = b0*256^k + ... + bk
   when every element is an octet.  Inverse of [be_bytes (length l)]. *)
Definition bytes_to_N (l : list N) : N :=
  fold_left (fun acc b => N.lor (N.shiftl acc 8) b) l 0.

(* A (possibly short) block as a 128-bit number, zero-padded on the right;
   meaningful for [length blk <= 16]. *)
Definition block_to_N (blk : list N) : N :=
  N.shiftl (bytes_to_N blk) (8 * N.of_nat (16 - length blk)).

(* ------------------------------------------------------------------ *)
(* Multiplication in GF(2^128)  (SP 800-38D 6.3, Algorithm 1)         *)
(* ------------------------------------------------------------------ *)

(* R = 11100001 || 0^120 *)
Definition gf_R : N := 0xE1000000000000000000000000000000.

(* One step on V:  V >> 1 if LSB(V) = 0,  (V >> 1) xor R otherwise. *)
Definition gf_mulx (v : N) : N :=
  if N.odd v then N.lxor (N.div2 v) gf_R else N.div2 v.

(* [gf_mul_loop fuel i x z v]: the remaining [fuel] steps of Algorithm 1;
   [i] is the position, in the number [x], of the next bit x_(127-i) of X
   to look at ([i] = [fuel] - 1 throughout). *)
Fixpoint gf_mul_loop (fuel : nat) (i x z v : N) : N :=
  match fuel with
  | O => z
  | S f =>
    gf_mul_loop f (N.pred i) x
                (if N.testbit x i then N.lxor z v else z)
                (gf_mulx v)
  end.

(* X . Y : Z_0 = 0, V_0 = Y, 128 steps, result Z_128. *)
Definition gf_mul (x y : N) : N := gf_mul_loop 128 127 x 0 y.

(* ------------------------------------------------------------------ *)
(* GHASH  (SP 800-38D 6.4, Algorithm 2)                               *)
(* ------------------------------------------------------------------ *)

(* Cut a byte string into 16-octet blocks; the last one may be shorter.
   [fuel] bounds the number of blocks ([length l] is always enough). *)
Fixpoint blocks16 (fuel : nat) (l : list N) : list (list N) :=
  match fuel, l with
  | O, _ => []
  | _, [] => []
  | S f, _ => firstn 16 l :: blocks16 f (skipn 16 l)
  end.

(* Y_0 = 0, Y_i = (Y_(i-1) xor X_i) . H ; a short last block is
   zero-padded on the right. *)
Definition ghash (h : N) (data : list N) : N :=
  fold_left (fun y blk => gf_mul (N.lxor y (block_to_N blk)) h)
            (blocks16 (length data) data) 0.

(* [l] followed by the minimum number of zero octets that makes the length
   a multiple of 16 (the 0^v and 0^u of Algorithm 4). *)
Definition pad16 (l : list N) : list N :=
  l ++ repeat 0 ((16 - length l mod 16) mod 16)%nat.

(* [len(x)]_64 : the bit length of [x] on 8 octets. *)
Definition len64 (x : list N) : list N := be_bytes 8 (8 * N.of_nat (length x)).

(* ------------------------------------------------------------------ *)
(* inc32, GCTR  (SP 800-38D 6.2, 6.5 Algorithm 3)                     *)
(* ------------------------------------------------------------------ *)

(* Increment the rightmost 32 bits modulo 2^32, leave the left 96 alone. *)
Definition inc32 (cb : list N) : list N :=
  firstn 12 cb ++ be_bytes 4 (bytes_to_N (skipn 12 cb) + 1).

(* CIPH(CB_1) || CIPH(CB_2) || ... , [n] blocks, CB_(i+1) = inc32 CB_i. *)
Fixpoint gctr_stream (rks : list (list N)) (n : nat) (cb : list N) : list N :=
  match n with
  | O => []
  | S n' => aes_encrypt_rk rks cb ++ gctr_stream rks n' (inc32 cb)
  end.

(* GCTR_K(ICB, X): X xor the first len(X) octets of the key stream. *)
Definition gctr (rks : list (list N)) (icb x : list N) : list N :=
  xor_bytes x (gctr_stream rks ((length x + 15) / 16)%nat icb).

(* ------------------------------------------------------------------ *)
(* GCM-AE and GCM-AD  (SP 800-38D 7.1, 7.2, Algorithms 4 and 5)       *)
(* ------------------------------------------------------------------ *)

(* The hash subkey H = CIPH_K(0^128). *)
Definition gcm_hash_key (rks : list (list N)) : N :=
  bytes_to_N (aes_encrypt_rk rks (repeat 0 16%nat)).

(* The pre-counter block J0:
     IV || 0^31 || 1                                   if len(IV) = 96,
     GHASH_H(IV || 0^(s+64) || [len(IV)]_64)           otherwise. *)
Definition gcm_j0 (h : N) (iv : list N) : list N :=
  if (length iv =? 12)%nat then iv ++ [0; 0; 0; 1]
  else be_bytes 16 (ghash h (pad16 iv ++ repeat 0 8%nat ++ len64 iv)).

(* S = GHASH_H(A || 0^v || C || 0^u || [len(A)]_64 || [len(C)]_64) *)
Definition gcm_s (h : N) (aad ct : list N) : N :=
  ghash h (pad16 aad ++ pad16 ct ++ len64 aad ++ len64 ct).

(* The untruncated, 16-octet tag GCTR_K(J0, S) of ciphertext [ct]. *)
Definition gcm_tag (rks : list (list N)) (iv aad ct : list N) : list N :=
  let h := gcm_hash_key rks in
  gctr rks (gcm_j0 h iv) (be_bytes 16 (gcm_s h aad ct)).

(* The body is GCTR_K(inc32(J0), . ) in both directions. *)
Definition gcm_crypt (rks : list (list N)) (iv x : list N) : list N :=
  gctr rks (inc32 (gcm_j0 (gcm_hash_key rks) iv)) x.

(* Authenticated encryption: (C, T) with T = MSB_t of the full tag,
   t = 8 * taglen. *)
Definition gcm_encrypt (rks : list (list N)) (iv aad pt : list N)
           (taglen : nat) : list N * list N :=
  let ct := gcm_crypt rks iv pt in
  (ct, firstn taglen (gcm_tag rks iv aad ct)).

(* Equality of byte strings. *)
Fixpoint bytes_eqb (a b : list N) : bool :=
  match a, b with
  | [], [] => true
  | x :: a', y :: b' => (x =? y) && bytes_eqb a' b'
  | _, _ => false
  end.

(* Authenticated decryption: [None] is FAIL.  The tag length is the
   length of the given [tag]. *)
Definition gcm_decrypt (rks : list (list N)) (iv aad ct tag : list N)
  : option (list N) :=
  if bytes_eqb tag (firstn (length tag) (gcm_tag rks iv aad ct))
  then Some (gcm_crypt rks iv ct)
  else None.

(* Convenience wrappers taking the raw 16 / 24 / 32 octet key. *)
Definition aes_gcm_encrypt (key iv aad pt : list N) (taglen : nat) :=
  gcm_encrypt (aes_key_expand key) iv aad pt taglen.

Definition aes_gcm_decrypt (key iv aad ct tag : list N) :=
  gcm_decrypt (aes_key_expand key) iv aad ct tag.

(* ------------------------------------------------------------------ *)
(* Lemmas                                                             *)
(* ------------------------------------------------------------------ *)

Lemma bytes_eqb_refl : forall a, bytes_eqb a a = true.
Proof.
  induction a as [|x a IH]; simpl.
  - reflexivity.
  - rewrite N.eqb_refl, IH. reflexivity.
Qed.

Lemma bytes_eqb_eq : forall a b, bytes_eqb a b = true <-> a = b.
Proof.
  split.
  - revert b. induction a as [|x a IH]; intros [|y b] H; simpl in H;
      try discriminate; try reflexivity.
    apply andb_true_iff in H. destruct H as [H1 H2].
    apply N.eqb_eq in H1. apply IH in H2. subst. reflexivity.
  - intros ->. apply bytes_eqb_refl.
Qed.

Lemma firstn_length_firstn :
  forall (A : Type) n (l : list A), firstn (length (firstn n l)) l = firstn n l.
Proof.
  intros A. induction n as [|n IH]; intros [|x l]; simpl; try reflexivity.
  rewrite IH. reflexivity.
Qed.

Lemma gctr_length : forall rks icb x, length (gctr rks icb x) = length x.
Proof.
  intros. unfold gctr. apply xor_bytes_length.
Qed.

(* GCTR with the same initial counter block is an involution, for byte
   strings of arbitrary [N]s (no octet-range condition). *)
Lemma gctr_involutive :
  forall rks icb x, gctr rks icb (gctr rks icb x) = x.
Proof.
  intros. unfold gctr. rewrite xor_bytes_length.
  apply xor_bytes_involutive_gen.
Qed.

Lemma gcm_crypt_length :
  forall rks iv x, length (gcm_crypt rks iv x) = length x.
Proof.
  intros. unfold gcm_crypt. apply gctr_length.
Qed.

Lemma gcm_crypt_involutive :
  forall rks iv x, gcm_crypt rks iv (gcm_crypt rks iv x) = x.
Proof.
  intros. unfold gcm_crypt. apply gctr_involutive.
Qed.

Lemma gcm_tag_length :
  forall rks iv aad ct, length (gcm_tag rks iv aad ct) = 16%nat.
Proof.
  intros. unfold gcm_tag. cbv zeta.
  rewrite gctr_length. apply be_bytes_length.
Qed.

Lemma inc32_length : forall cb, length cb = 16%nat -> length (inc32 cb) = 16%nat.
Proof.
  intros cb H. unfold inc32.
  rewrite app_length, firstn_length, be_bytes_length. lia.
Qed.

Lemma gcm_j0_length :
  forall h iv, length (gcm_j0 h iv) = 16%nat.
Proof.
  intros h iv. unfold gcm_j0.
  destruct (length iv =? 12)%nat eqn:E.
  - apply Nat.eqb_eq in E. rewrite app_length, E. reflexivity.
  - apply be_bytes_length.
Qed.

(* Ciphertext as long as the plaintext; tag of min(taglen, 16) octets. *)
Lemma gcm_encrypt_length :
  forall rks iv aad pt taglen ct tag,
    gcm_encrypt rks iv aad pt taglen = (ct, tag) ->
    length ct = length pt /\ length tag = Nat.min taglen 16.
Proof.
  intros rks iv aad pt taglen ct tag H.
  unfold gcm_encrypt in H. cbv zeta in H.
  injection H as Hct Htag. subst ct tag. split.
  - apply gcm_crypt_length.
  - rewrite firstn_length, gcm_tag_length. reflexivity.
Qed.

(* Decryption of what was encrypted, with the tag that was produced,
   succeeds and gives back the plaintext.  No side condition: the elements
   of [pt] need not even be octets. *)
Lemma gcm_decrypt_encrypt :
  forall rks iv aad pt n ct tag,
    gcm_encrypt rks iv aad pt n = (ct, tag) ->
    gcm_decrypt rks iv aad ct tag = Some pt.
Proof.
  intros rks iv aad pt n ct tag H.
  unfold gcm_encrypt in H. cbv zeta in H.
  injection H as Hct Htag. subst ct tag.
  unfold gcm_decrypt.
  rewrite firstn_length_firstn, bytes_eqb_refl, gcm_crypt_involutive.
  reflexivity.
Qed.

(* A tag that differs from the recomputed one (on its own length) is
   rejected ... *)
Lemma gcm_decrypt_tag_mismatch :
  forall rks iv aad ct tag,
    tag <> firstn (length tag) (gcm_tag rks iv aad ct) ->
    gcm_decrypt rks iv aad ct tag = None.
Proof.
  intros rks iv aad ct tag H. unfold gcm_decrypt.
  destruct (bytes_eqb tag (firstn (length tag) (gcm_tag rks iv aad ct))) eqn:E.
  - apply bytes_eqb_eq in E. contradiction.
  - reflexivity.
Qed.

(* ... and conversely every accepted (ct, tag) is exactly what encryption
   of the returned plaintext produces for that tag length. *)
Lemma gcm_decrypt_some_inv :
  forall rks iv aad ct tag pt,
    gcm_decrypt rks iv aad ct tag = Some pt ->
    gcm_encrypt rks iv aad pt (length tag) = (ct, tag).
Proof.
  intros rks iv aad ct tag pt H. unfold gcm_decrypt in H.
  destruct (bytes_eqb tag (firstn (length tag) (gcm_tag rks iv aad ct))) eqn:E;
    [|discriminate].
  apply bytes_eqb_eq in E. injection H as Hpt.
  unfold gcm_encrypt. cbv zeta.
  rewrite <- Hpt, gcm_crypt_involutive, <- E. reflexivity.
Qed.

Lemma gcm_decrypt_length :
  forall rks iv aad ct tag pt,
    gcm_decrypt rks iv aad ct tag = Some pt -> length pt = length ct.
Proof.
  intros rks iv aad ct tag pt H. apply gcm_decrypt_some_inv in H.
  apply gcm_encrypt_length in H. symmetry. apply H.
Qed.

(* A tag of more than 16 octets is never accepted. *)
Lemma gcm_decrypt_long_tag :
  forall rks iv aad ct tag,
    (16 < length tag)%nat -> gcm_decrypt rks iv aad ct tag = None.
Proof.
  intros rks iv aad ct tag H. apply gcm_decrypt_tag_mismatch.
  intros E. apply (f_equal (@length N)) in E.
  rewrite firstn_length, gcm_tag_length in E. lia.
Qed.

(* ------------------------------------------------------------------ *)
(* Tests of the building blocks                                       *)
(* ------------------------------------------------------------------ *)

Example bytes_to_N_ex : bytes_to_N [1; 2; 3; 4] = 0x01020304.
Proof. vm_compute. reflexivity. Qed.

Example bytes_to_N_be_bytes_ex :
  bytes_to_N (be_bytes 16 0x66e94bd4ef8a2c3b884cfa59ca342b2e) =
  0x66e94bd4ef8a2c3b884cfa59ca342b2e.
Proof. vm_compute. reflexivity. Qed.

(* A short block is padded on the right. *)
Example block_to_N_ex : block_to_N [0xab; 0xcd] = 0xabcd0000000000000000000000000000.
Proof. vm_compute. reflexivity. Qed.

Example blocks16_ex :
  map (@length N) (blocks16 33 (repeat 7 33%nat)) = [16; 16; 1]%nat /\
  blocks16 0 [] = [] /\
  blocks16 5 [1; 2; 3; 4; 5] = [[1; 2; 3; 4; 5]].
Proof. vm_compute. repeat split. Qed.

Example pad16_ex :
  pad16 [] = [] /\
  pad16 [1; 2; 3] = [1; 2; 3; 0; 0; 0; 0; 0; 0; 0; 0; 0; 0; 0; 0; 0] /\
  map (fun n => length (pad16 (repeat 1 n))) [15; 16; 17; 32]%nat = [16; 16; 32; 32]%nat.
Proof. vm_compute. repeat split. Qed.

Example gf_R_ex : gf_R = N.shiftl 0xE1 120.
Proof. vm_compute. reflexivity. Qed.

(* The multiplicative identity is the block 1 || 0^127 (the polynomial 1). *)
Example gf_mul_one_l :
  gf_mul 0x80000000000000000000000000000000 0x66e94bd4ef8a2c3b884cfa59ca342b2e =
  0x66e94bd4ef8a2c3b884cfa59ca342b2e.
Proof. vm_compute. reflexivity. Qed.

Example gf_mul_one_r :
  gf_mul 0x66e94bd4ef8a2c3b884cfa59ca342b2e 0x80000000000000000000000000000000 =
  0x66e94bd4ef8a2c3b884cfa59ca342b2e.
Proof. vm_compute. reflexivity. Qed.

(* x . x^127 = x^128 = x^7 + x^2 + x + 1, i.e. R. *)
Example gf_mul_reduce : gf_mul 0x40000000000000000000000000000000 1 = gf_R.
Proof. vm_compute. reflexivity. Qed.

Example gf_mul_zero :
  gf_mul 0 0x66e94bd4ef8a2c3b884cfa59ca342b2e = 0 /\
  gf_mul 0x66e94bd4ef8a2c3b884cfa59ca342b2e 0 = 0.
Proof. vm_compute. split; reflexivity. Qed.

(* McGrew-Viega test case 2, intermediate values: H, X_1 = C . H, and
   GHASH(H, {}, C). *)
Example gcm_hash_key_mv_tc2 :
  gcm_hash_key (aes_key_expand (repeat 0 16%nat)) = 0x66e94bd4ef8a2c3b884cfa59ca342b2e.
Proof. vm_compute. reflexivity. Qed.

Example gf_mul_mv_tc2 :
  gf_mul 0x0388dace60b6a392f328c2b971b2fe78 0x66e94bd4ef8a2c3b884cfa59ca342b2e =
  0x5e2ec746917062882c85b0685353deb7.
Proof. vm_compute. reflexivity. Qed.

Example gf_mul_comm_ex :
  gf_mul 0x66e94bd4ef8a2c3b884cfa59ca342b2e 0x0388dace60b6a392f328c2b971b2fe78 =
  0x5e2ec746917062882c85b0685353deb7.
Proof. vm_compute. reflexivity. Qed.

Example ghash_mv_tc2 :
  gcm_s 0x66e94bd4ef8a2c3b884cfa59ca342b2e []
        (be_bytes 16 0x0388dace60b6a392f328c2b971b2fe78) =
  0xf38cbb1ad69223dcc3457ae5b6b0f885.
Proof. vm_compute. reflexivity. Qed.

(* GHASH pads a short last block with zeros. *)
Example ghash_pad_ex :
  ghash 0x66e94bd4ef8a2c3b884cfa59ca342b2e [1; 2; 3] =
  ghash 0x66e94bd4ef8a2c3b884cfa59ca342b2e (pad16 [1; 2; 3]) /\
  ghash 0x66e94bd4ef8a2c3b884cfa59ca342b2e [] = 0.
Proof. vm_compute. split; reflexivity. Qed.

Example inc32_ex :
  inc32 (be_bytes 16 0x000102030405060708090a0b00000001) =
  be_bytes 16 0x000102030405060708090a0b00000002.
Proof. vm_compute. reflexivity. Qed.

(* The increment wraps modulo 2^32 and does not carry into the left 96 bits. *)
Example inc32_wrap_ex :
  inc32 (be_bytes 16 0x000102030405060708090a0bffffffff) =
  be_bytes 16 0x000102030405060708090a0b00000000.
Proof. vm_compute. reflexivity. Qed.

Example gcm_j0_96_ex :
  gcm_j0 0x66e94bd4ef8a2c3b884cfa59ca342b2e (be_bytes 12 0xcafebabefacedbaddecaf888) =
  be_bytes 16 0xcafebabefacedbaddecaf88800000001.
Proof. vm_compute. reflexivity. Qed.

(* McGrew-Viega test case 5 (H = b83b5337..., 64-bit IV): Y_0 = c43a83c4c4badec4354ca984db252f7d. *)
Example gcm_j0_mv_tc5 :
  let h := gcm_hash_key (aes_key_expand (be_bytes 16 0xfeffe9928665731c6d6a8f9467308308)) in
  h = 0xb83b533708bf535d0aa6e52980d53b78 /\
  gcm_j0 h (be_bytes 8 0xcafebabefacedbad) =
  be_bytes 16 0xc43a83c4c4badec4354ca984db252f7d.
Proof. vm_compute. split; reflexivity. Qed.

(* An empty string is left empty; the key stream is cut to the data. *)
Example gctr_ex :
  gctr (aes_key_expand (repeat 0 16%nat)) (be_bytes 16 1) [] = [] /\
  gctr (aes_key_expand (repeat 0 16%nat)) (be_bytes 16 2) [0; 0; 0] = [0x03; 0x88; 0xda].
Proof. vm_compute. split; reflexivity. Qed.

(* ------------------------------------------------------------------ *)
(* Known-answer tests                                                 *)
(* ------------------------------------------------------------------ *)

(* McGrew & Viega, "The Galois/Counter Mode of Operation (GCM)", Appendix B.
   Test cases 1-6 are AES-128, 13-18 are AES-256.  (Each of these was also
   recomputed with OpenSSL 3.5 and found identical.) *)

(* Test case 1: K = 0^128, P = empty, IV = 0^96 *)
Example gcm_mv_tc1 :
  aes_gcm_encrypt
    (be_bytes 16 0x00000000000000000000000000000000)
    (be_bytes 12 0x000000000000000000000000)
    []
    []
    16 =
  ([],
   (be_bytes 16 0x58e2fccefa7e3061367f1d57a4e7455a)).
Proof. vm_compute. reflexivity. Qed.

(* Test case 2: K = 0^128, P = 0^128, IV = 0^96 *)
Example gcm_mv_tc2 :
  aes_gcm_encrypt
    (be_bytes 16 0x00000000000000000000000000000000)
    (be_bytes 12 0x000000000000000000000000)
    []
    (be_bytes 16 0x00000000000000000000000000000000)
    16 =
  ((be_bytes 16 0x0388dace60b6a392f328c2b971b2fe78),
   (be_bytes 16 0xab6e47d42cec13bdf53a67b21257bddf)).
Proof. vm_compute. reflexivity. Qed.

(* Test case 3: 64-octet P, no AAD *)
Example gcm_mv_tc3 :
  aes_gcm_encrypt
    (be_bytes 16 0xfeffe9928665731c6d6a8f9467308308)
    (be_bytes 12 0xcafebabefacedbaddecaf888)
    []
    (be_bytes 32 0xd9313225f88406e5a55909c5aff5269a86a7a9531534f7da2e4c303d8a318a72 ++
     be_bytes 32 0x1c3c0c95956809532fcf0e2449a6b525b16aedf5aa0de657ba637b391aafd255)
    16 =
  ((be_bytes 32 0x42831ec2217774244b7221b784d0d49ce3aa212f2c02a4e035c17e2329aca12e ++
   be_bytes 32 0x21d514b25466931c7d8f6a5aac84aa051ba30b396a0aac973d58e091473f5985),
   (be_bytes 16 0x4d5c2af327cd64a62cf35abd2ba6fab4)).
Proof. vm_compute. reflexivity. Qed.

(* Test case 4: 60-octet P, 20-octet AAD *)
Example gcm_mv_tc4 :
  aes_gcm_encrypt
    (be_bytes 16 0xfeffe9928665731c6d6a8f9467308308)
    (be_bytes 12 0xcafebabefacedbaddecaf888)
    (be_bytes 20 0xfeedfacedeadbeeffeedfacedeadbeefabaddad2)
    (be_bytes 32 0xd9313225f88406e5a55909c5aff5269a86a7a9531534f7da2e4c303d8a318a72 ++
     be_bytes 28 0x1c3c0c95956809532fcf0e2449a6b525b16aedf5aa0de657ba637b39)
    16 =
  ((be_bytes 32 0x42831ec2217774244b7221b784d0d49ce3aa212f2c02a4e035c17e2329aca12e ++
   be_bytes 28 0x21d514b25466931c7d8f6a5aac84aa051ba30b396a0aac973d58e091),
   (be_bytes 16 0x5bc94fbc3221a5db94fae95ae7121a47)).
Proof. vm_compute. reflexivity. Qed.

(* Test case 5: as 4 with a 64-bit IV (J0 by GHASH) *)
Example gcm_mv_tc5 :
  aes_gcm_encrypt
    (be_bytes 16 0xfeffe9928665731c6d6a8f9467308308)
    (be_bytes 8 0xcafebabefacedbad)
    (be_bytes 20 0xfeedfacedeadbeeffeedfacedeadbeefabaddad2)
    (be_bytes 32 0xd9313225f88406e5a55909c5aff5269a86a7a9531534f7da2e4c303d8a318a72 ++
     be_bytes 28 0x1c3c0c95956809532fcf0e2449a6b525b16aedf5aa0de657ba637b39)
    16 =
  ((be_bytes 32 0x61353b4c2806934a777ff51fa22a4755699b2a714fcdc6f83766e5f97b6c7423 ++
   be_bytes 28 0x73806900e49f24b22b097544d4896b424989b5e1ebac0f07c23f4598),
   (be_bytes 16 0x3612d2e79e3b0785561be14aaca2fccb)).
Proof. vm_compute. reflexivity. Qed.

(* Test case 6: as 4 with a 480-bit IV (J0 by GHASH) *)
Example gcm_mv_tc6 :
  aes_gcm_encrypt
    (be_bytes 16 0xfeffe9928665731c6d6a8f9467308308)
    (be_bytes 32 0x9313225df88406e555909c5aff5269aa6a7a9538534f7da1e4c303d2a318a728 ++
     be_bytes 28 0xc3c0c95156809539fcf0e2429a6b525416aedbf5a0de6a57a637b39b)
    (be_bytes 20 0xfeedfacedeadbeeffeedfacedeadbeefabaddad2)
    (be_bytes 32 0xd9313225f88406e5a55909c5aff5269a86a7a9531534f7da2e4c303d8a318a72 ++
     be_bytes 28 0x1c3c0c95956809532fcf0e2449a6b525b16aedf5aa0de657ba637b39)
    16 =
  ((be_bytes 32 0x8ce24998625615b603a033aca13fb894be9112a5c3a211a8ba262a3cca7e2ca7 ++
   be_bytes 28 0x01e4a9a4fba43c90ccdcb281d48c7c6fd62875d2aca417034c34aee5),
   (be_bytes 16 0x619cc5aefffe0bfa462af43c1699d050)).
Proof. vm_compute. reflexivity. Qed.

(* Test case 13: K = 0^256, P = empty, IV = 0^96 *)
Example gcm_mv_tc13 :
  aes_gcm_encrypt
    (be_bytes 32 0x0000000000000000000000000000000000000000000000000000000000000000)
    (be_bytes 12 0x000000000000000000000000)
    []
    []
    16 =
  ([],
   (be_bytes 16 0x530f8afbc74536b9a963b4f1c4cb738b)).
Proof. vm_compute. reflexivity. Qed.

(* Test case 14: K = 0^256, P = 0^128, IV = 0^96 *)
Example gcm_mv_tc14 :
  aes_gcm_encrypt
    (be_bytes 32 0x0000000000000000000000000000000000000000000000000000000000000000)
    (be_bytes 12 0x000000000000000000000000)
    []
    (be_bytes 16 0x00000000000000000000000000000000)
    16 =
  ((be_bytes 16 0xcea7403d4d606b6e074ec5d3baf39d18),
   (be_bytes 16 0xd0d1c8a799996bf0265b98b5d48ab919)).
Proof. vm_compute. reflexivity. Qed.

(* Test case 15: AES-256, 64-octet P, no AAD *)
Example gcm_mv_tc15 :
  aes_gcm_encrypt
    (be_bytes 32 0xfeffe9928665731c6d6a8f9467308308feffe9928665731c6d6a8f9467308308)
    (be_bytes 12 0xcafebabefacedbaddecaf888)
    []
    (be_bytes 32 0xd9313225f88406e5a55909c5aff5269a86a7a9531534f7da2e4c303d8a318a72 ++
     be_bytes 32 0x1c3c0c95956809532fcf0e2449a6b525b16aedf5aa0de657ba637b391aafd255)
    16 =
  ((be_bytes 32 0x522dc1f099567d07f47f37a32a84427d643a8cdcbfe5c0c97598a2bd2555d1aa ++
   be_bytes 32 0x8cb08e48590dbb3da7b08b1056828838c5f61e6393ba7a0abcc9f662898015ad),
   (be_bytes 16 0xb094dac5d93471bdec1a502270e3cc6c)).
Proof. vm_compute. reflexivity. Qed.

(* Test case 16: AES-256, 60-octet P, 20-octet AAD *)
Example gcm_mv_tc16 :
  aes_gcm_encrypt
    (be_bytes 32 0xfeffe9928665731c6d6a8f9467308308feffe9928665731c6d6a8f9467308308)
    (be_bytes 12 0xcafebabefacedbaddecaf888)
    (be_bytes 20 0xfeedfacedeadbeeffeedfacedeadbeefabaddad2)
    (be_bytes 32 0xd9313225f88406e5a55909c5aff5269a86a7a9531534f7da2e4c303d8a318a72 ++
     be_bytes 28 0x1c3c0c95956809532fcf0e2449a6b525b16aedf5aa0de657ba637b39)
    16 =
  ((be_bytes 32 0x522dc1f099567d07f47f37a32a84427d643a8cdcbfe5c0c97598a2bd2555d1aa ++
   be_bytes 28 0x8cb08e48590dbb3da7b08b1056828838c5f61e6393ba7a0abcc9f662),
   (be_bytes 16 0x76fc6ece0f4e1768cddf8853bb2d551b)).
Proof. vm_compute. reflexivity. Qed.

(* Test case 17: as 16 with a 64-bit IV *)
Example gcm_mv_tc17 :
  aes_gcm_encrypt
    (be_bytes 32 0xfeffe9928665731c6d6a8f9467308308feffe9928665731c6d6a8f9467308308)
    (be_bytes 8 0xcafebabefacedbad)
    (be_bytes 20 0xfeedfacedeadbeeffeedfacedeadbeefabaddad2)
    (be_bytes 32 0xd9313225f88406e5a55909c5aff5269a86a7a9531534f7da2e4c303d8a318a72 ++
     be_bytes 28 0x1c3c0c95956809532fcf0e2449a6b525b16aedf5aa0de657ba637b39)
    16 =
  ((be_bytes 32 0xc3762df1ca787d32ae47c13bf19844cbaf1ae14d0b976afac52ff7d79bba9de0 ++
   be_bytes 28 0xfeb582d33934a4f0954cc2363bc73f7862ac430e64abe499f47c9b1f),
   (be_bytes 16 0x3a337dbf46a792c45e454913fe2ea8f2)).
Proof. vm_compute. reflexivity. Qed.

(* Test case 18: as 16 with a 480-bit IV *)
Example gcm_mv_tc18 :
  aes_gcm_encrypt
    (be_bytes 32 0xfeffe9928665731c6d6a8f9467308308feffe9928665731c6d6a8f9467308308)
    (be_bytes 32 0x9313225df88406e555909c5aff5269aa6a7a9538534f7da1e4c303d2a318a728 ++
     be_bytes 28 0xc3c0c95156809539fcf0e2429a6b525416aedbf5a0de6a57a637b39b)
    (be_bytes 20 0xfeedfacedeadbeeffeedfacedeadbeefabaddad2)
    (be_bytes 32 0xd9313225f88406e5a55909c5aff5269a86a7a9531534f7da2e4c303d8a318a72 ++
     be_bytes 28 0x1c3c0c95956809532fcf0e2449a6b525b16aedf5aa0de657ba637b39)
    16 =
  ((be_bytes 32 0x5a8def2f0c9e53f1f75d7853659e2a20eeb2b22aafde6419a058ab4f6f746bf4 ++
   be_bytes 28 0x0fc0c3b780f244452da3ebf1c5d82cdea2418997200ef82e44ae7e3f),
   (be_bytes 16 0xa44a8266ee1c8eb0c8b5d4cf5ae9f19a)).
Proof. vm_compute. reflexivity. Qed.

(* libsrtp, crypto/cipher/cipher_test_cases.c: srtp_aes_gcm_128_test_case_0 / 0a and
   srtp_aes_gcm_256_test_case_0 / 0a.  The key arrays there are key || 12-octet salt;
   the cipher key is the first 16 / 32 octets (the salt is not used by the cipher
   self-test, which sets the IV directly).  The "ciphertext" arrays are
   ciphertext || tag; the 0a cases keep only the first 8 octets of the same tag. *)

(* srtp_aes_gcm_128_test_case_0 (16-octet tag) *)
Example gcm_srtp_128_tag16 :
  aes_gcm_encrypt
    (be_bytes 16 0xfeffe9928665731c6d6a8f9467308308)
    (be_bytes 12 0xcafebabefacedbaddecaf888)
    (be_bytes 20 0xfeedfacedeadbeeffeedfacedeadbeefabaddad2)
    (be_bytes 32 0xd9313225f88406e5a55909c5aff5269a86a7a9531534f7da2e4c303d8a318a72 ++
     be_bytes 28 0x1c3c0c95956809532fcf0e2449a6b525b16aedf5aa0de657ba637b39)
    16 =
  ((be_bytes 32 0x42831ec2217774244b7221b784d0d49ce3aa212f2c02a4e035c17e2329aca12e ++
   be_bytes 28 0x21d514b25466931c7d8f6a5aac84aa051ba30b396a0aac973d58e091),
   (be_bytes 16 0x5bc94fbc3221a5db94fae95ae7121a47)).
Proof. vm_compute. reflexivity. Qed.

(* srtp_aes_gcm_128_test_case_0a (8-octet tag) *)
Example gcm_srtp_128_tag8 :
  aes_gcm_encrypt
    (be_bytes 16 0xfeffe9928665731c6d6a8f9467308308)
    (be_bytes 12 0xcafebabefacedbaddecaf888)
    (be_bytes 20 0xfeedfacedeadbeeffeedfacedeadbeefabaddad2)
    (be_bytes 32 0xd9313225f88406e5a55909c5aff5269a86a7a9531534f7da2e4c303d8a318a72 ++
     be_bytes 28 0x1c3c0c95956809532fcf0e2449a6b525b16aedf5aa0de657ba637b39)
    8 =
  ((be_bytes 32 0x42831ec2217774244b7221b784d0d49ce3aa212f2c02a4e035c17e2329aca12e ++
   be_bytes 28 0x21d514b25466931c7d8f6a5aac84aa051ba30b396a0aac973d58e091),
   (be_bytes 8 0x5bc94fbc3221a5db)).
Proof. vm_compute. reflexivity. Qed.

(* srtp_aes_gcm_256_test_case_0 (16-octet tag) *)
Example gcm_srtp_256_tag16 :
  aes_gcm_encrypt
    (be_bytes 32 0xfeffe9928665731ca55909c55466931caff5269a21d514b26d6a8f9467308308)
    (be_bytes 12 0xcafebabefacedbaddecaf888)
    (be_bytes 20 0xfeedfacedeadbeeffeedfacedeadbeefabaddad2)
    (be_bytes 32 0xd9313225f88406e5a55909c5aff5269a86a7a9531534f7da2e4c303d8a318a72 ++
     be_bytes 28 0x1c3c0c95956809532fcf0e2449a6b525b16aedf5aa0de657ba637b39)
    16 =
  ((be_bytes 32 0x0b11cfaf684dae46c790b88eb76a762a9482caab3e39d7861bc793ed757f235a ++
   be_bytes 28 0xdafdd3e20e8087a96dd7e26a7d5fb480efefc52912d1aa1009c986c1),
   (be_bytes 16 0x45bc03e6e1ac0a9f81cb8e5b4665631d)).
Proof. vm_compute. reflexivity. Qed.

(* srtp_aes_gcm_256_test_case_0a (8-octet tag) *)
Example gcm_srtp_256_tag8 :
  aes_gcm_encrypt
    (be_bytes 32 0xfeffe9928665731ca55909c55466931caff5269a21d514b26d6a8f9467308308)
    (be_bytes 12 0xcafebabefacedbaddecaf888)
    (be_bytes 20 0xfeedfacedeadbeeffeedfacedeadbeefabaddad2)
    (be_bytes 32 0xd9313225f88406e5a55909c5aff5269a86a7a9531534f7da2e4c303d8a318a72 ++
     be_bytes 28 0x1c3c0c95956809532fcf0e2449a6b525b16aedf5aa0de657ba637b39)
    8 =
  ((be_bytes 32 0x0b11cfaf684dae46c790b88eb76a762a9482caab3e39d7861bc793ed757f235a ++
   be_bytes 28 0xdafdd3e20e8087a96dd7e26a7d5fb480efefc52912d1aa1009c986c1),
   (be_bytes 8 0x45bc03e6e1ac0a9f)).
Proof. vm_compute. reflexivity. Qed.

(* The decryption direction on the same vectors, and rejection of modified inputs. *)

(* decrypt, 16-octet tag *)
Example gcm_srtp_128_tag16_dec :
  aes_gcm_decrypt
    (be_bytes 16 0xfeffe9928665731c6d6a8f9467308308)
    (be_bytes 12 0xcafebabefacedbaddecaf888)
    (be_bytes 20 0xfeedfacedeadbeeffeedfacedeadbeefabaddad2)
    (be_bytes 32 0x42831ec2217774244b7221b784d0d49ce3aa212f2c02a4e035c17e2329aca12e ++
     be_bytes 28 0x21d514b25466931c7d8f6a5aac84aa051ba30b396a0aac973d58e091)
    (be_bytes 16 0x5bc94fbc3221a5db94fae95ae7121a47) =
  Some
    (be_bytes 32 0xd9313225f88406e5a55909c5aff5269a86a7a9531534f7da2e4c303d8a318a72 ++
     be_bytes 28 0x1c3c0c95956809532fcf0e2449a6b525b16aedf5aa0de657ba637b39).
Proof. vm_compute. reflexivity. Qed.

(* decrypt, 8-octet tag *)
Example gcm_srtp_128_tag8_dec :
  aes_gcm_decrypt
    (be_bytes 16 0xfeffe9928665731c6d6a8f9467308308)
    (be_bytes 12 0xcafebabefacedbaddecaf888)
    (be_bytes 20 0xfeedfacedeadbeeffeedfacedeadbeefabaddad2)
    (be_bytes 32 0x42831ec2217774244b7221b784d0d49ce3aa212f2c02a4e035c17e2329aca12e ++
     be_bytes 28 0x21d514b25466931c7d8f6a5aac84aa051ba30b396a0aac973d58e091)
    (be_bytes 8 0x5bc94fbc3221a5db) =
  Some
    (be_bytes 32 0xd9313225f88406e5a55909c5aff5269a86a7a9531534f7da2e4c303d8a318a72 ++
     be_bytes 28 0x1c3c0c95956809532fcf0e2449a6b525b16aedf5aa0de657ba637b39).
Proof. vm_compute. reflexivity. Qed.

(* decrypt, 16-octet tag *)
Example gcm_srtp_256_tag16_dec :
  aes_gcm_decrypt
    (be_bytes 32 0xfeffe9928665731ca55909c55466931caff5269a21d514b26d6a8f9467308308)
    (be_bytes 12 0xcafebabefacedbaddecaf888)
    (be_bytes 20 0xfeedfacedeadbeeffeedfacedeadbeefabaddad2)
    (be_bytes 32 0x0b11cfaf684dae46c790b88eb76a762a9482caab3e39d7861bc793ed757f235a ++
     be_bytes 28 0xdafdd3e20e8087a96dd7e26a7d5fb480efefc52912d1aa1009c986c1)
    (be_bytes 16 0x45bc03e6e1ac0a9f81cb8e5b4665631d) =
  Some
    (be_bytes 32 0xd9313225f88406e5a55909c5aff5269a86a7a9531534f7da2e4c303d8a318a72 ++
     be_bytes 28 0x1c3c0c95956809532fcf0e2449a6b525b16aedf5aa0de657ba637b39).
Proof. vm_compute. reflexivity. Qed.

(* decrypt, 8-octet tag *)
Example gcm_srtp_256_tag8_dec :
  aes_gcm_decrypt
    (be_bytes 32 0xfeffe9928665731ca55909c55466931caff5269a21d514b26d6a8f9467308308)
    (be_bytes 12 0xcafebabefacedbaddecaf888)
    (be_bytes 20 0xfeedfacedeadbeeffeedfacedeadbeefabaddad2)
    (be_bytes 32 0x0b11cfaf684dae46c790b88eb76a762a9482caab3e39d7861bc793ed757f235a ++
     be_bytes 28 0xdafdd3e20e8087a96dd7e26a7d5fb480efefc52912d1aa1009c986c1)
    (be_bytes 8 0x45bc03e6e1ac0a9f) =
  Some
    (be_bytes 32 0xd9313225f88406e5a55909c5aff5269a86a7a9531534f7da2e4c303d8a318a72 ++
     be_bytes 28 0x1c3c0c95956809532fcf0e2449a6b525b16aedf5aa0de657ba637b39).
Proof. vm_compute. reflexivity. Qed.

(* last bit of the tag flipped *)
Example gcm_dec_bad_tag :
  aes_gcm_decrypt
    (be_bytes 16 0xfeffe9928665731c6d6a8f9467308308)
    (be_bytes 12 0xcafebabefacedbaddecaf888)
    (be_bytes 20 0xfeedfacedeadbeeffeedfacedeadbeefabaddad2)
    (be_bytes 32 0x42831ec2217774244b7221b784d0d49ce3aa212f2c02a4e035c17e2329aca12e ++
     be_bytes 28 0x21d514b25466931c7d8f6a5aac84aa051ba30b396a0aac973d58e091)
    (be_bytes 16 0x5bc94fbc3221a5db94fae95ae7121a46) =
  None.
Proof. vm_compute. reflexivity. Qed.

(* first bit of the 8-octet tag flipped *)
Example gcm_dec_bad_tag8 :
  aes_gcm_decrypt
    (be_bytes 16 0xfeffe9928665731c6d6a8f9467308308)
    (be_bytes 12 0xcafebabefacedbaddecaf888)
    (be_bytes 20 0xfeedfacedeadbeeffeedfacedeadbeefabaddad2)
    (be_bytes 32 0x42831ec2217774244b7221b784d0d49ce3aa212f2c02a4e035c17e2329aca12e ++
     be_bytes 28 0x21d514b25466931c7d8f6a5aac84aa051ba30b396a0aac973d58e091)
    (be_bytes 8 0xdbc94fbc3221a5db) =
  None.
Proof. vm_compute. reflexivity. Qed.

(* last bit of the ciphertext flipped *)
Example gcm_dec_bad_ct :
  aes_gcm_decrypt
    (be_bytes 16 0xfeffe9928665731c6d6a8f9467308308)
    (be_bytes 12 0xcafebabefacedbaddecaf888)
    (be_bytes 20 0xfeedfacedeadbeeffeedfacedeadbeefabaddad2)
    (be_bytes 32 0x42831ec2217774244b7221b784d0d49ce3aa212f2c02a4e035c17e2329aca12e ++
     be_bytes 28 0x21d514b25466931c7d8f6a5aac84aa051ba30b396a0aac973d58e090)
    (be_bytes 16 0x5bc94fbc3221a5db94fae95ae7121a47) =
  None.
Proof. vm_compute. reflexivity. Qed.

(* one bit of the AAD flipped *)
Example gcm_dec_bad_aad :
  aes_gcm_decrypt
    (be_bytes 16 0xfeffe9928665731c6d6a8f9467308308)
    (be_bytes 12 0xcafebabefacedbaddecaf888)
    (be_bytes 20 0xffedfacedeadbeeffeedfacedeadbeefabaddad2)
    (be_bytes 32 0x42831ec2217774244b7221b784d0d49ce3aa212f2c02a4e035c17e2329aca12e ++
     be_bytes 28 0x21d514b25466931c7d8f6a5aac84aa051ba30b396a0aac973d58e091)
    (be_bytes 16 0x5bc94fbc3221a5db94fae95ae7121a47) =
  None.
Proof. vm_compute. reflexivity. Qed.

(* first ciphertext octet moved to the end of the AAD *)
Example gcm_dec_aad_moved :
  aes_gcm_decrypt
    (be_bytes 16 0xfeffe9928665731c6d6a8f9467308308)
    (be_bytes 12 0xcafebabefacedbaddecaf888)
    (be_bytes 21 0xfeedfacedeadbeeffeedfacedeadbeefabaddad242)
    (be_bytes 32 0x831ec2217774244b7221b784d0d49ce3aa212f2c02a4e035c17e2329aca12e21 ++
     be_bytes 27 0xd514b25466931c7d8f6a5aac84aa051ba30b396a0aac973d58e091)
    (be_bytes 16 0x5bc94fbc3221a5db94fae95ae7121a47) =
  None.
Proof. vm_compute. reflexivity. Qed.

(* 17-octet tag *)
Example gcm_dec_long_tag :
  aes_gcm_decrypt
    (be_bytes 16 0xfeffe9928665731c6d6a8f9467308308)
    (be_bytes 12 0xcafebabefacedbaddecaf888)
    (be_bytes 20 0xfeedfacedeadbeeffeedfacedeadbeefabaddad2)
    (be_bytes 32 0x42831ec2217774244b7221b784d0d49ce3aa212f2c02a4e035c17e2329aca12e ++
     be_bytes 28 0x21d514b25466931c7d8f6a5aac84aa051ba30b396a0aac973d58e091)
    (be_bytes 17 0x5bc94fbc3221a5db94fae95ae7121a4700) =
  None.
Proof. vm_compute. reflexivity. Qed.

(* Cross-checks against OpenSSL 3.5 (3.5.6, EVP_aes_{128,192,256}_gcm with
   EVP_CTRL_GCM_SET_IVLEN / EVP_CTRL_GCM_GET_TAG): random keys, IVs, AAD and
   plaintexts; the expected ciphertexts and tags below were generated with OpenSSL. *)

(* key 16, iv 12, aad 12, pt 0, tag 16 octets *)
Example gcm_ossl_00 :
  aes_gcm_encrypt
    (be_bytes 16 0xd7db3421bbedbf1657b0a788a89df2cd)
    (be_bytes 12 0x722bfa48df7e05c2bf0c4af3)
    (be_bytes 12 0x34803a41ea2c3cc9965db6e8)
    []
    16 =
  ([],
   (be_bytes 16 0x671a4d8a1c7702aacaf62cb40b425880)).
Proof. vm_compute. reflexivity. Qed.

(* key 32, iv 12, aad 0, pt 0, tag 8 octets *)
Example gcm_ossl_01 :
  aes_gcm_encrypt
    (be_bytes 32 0xd6fa93875bdd8753be287a7f9b0e4bda7aba220fb11271c14ae2215217e2034a)
    (be_bytes 12 0xc047876410ae810d2bec6a90)
    []
    []
    8 =
  ([],
   (be_bytes 8 0xe0756479681f933d)).
Proof. vm_compute. reflexivity. Qed.

(* key 16, iv 12, aad 0, pt 23, tag 8 octets *)
Example gcm_ossl_02 :
  aes_gcm_encrypt
    (be_bytes 16 0x8544d65e0a997ac1153027e2c59203d1)
    (be_bytes 12 0x85d1f1e1a25f6ece37a58f56)
    []
    (be_bytes 23 0x0b7c6c9e235a3cbb18d9ea1ccdf2756672b48a364e85af)
    8 =
  ((be_bytes 23 0xa441d6c4a96961af959a66e80dd9935971d479ef781063),
   (be_bytes 8 0xedd7b4e471950c1c)).
Proof. vm_compute. reflexivity. Qed.

(* key 32, iv 12, aad 12, pt 37, tag 16 octets *)
Example gcm_ossl_03 :
  aes_gcm_encrypt
    (be_bytes 32 0x34171cc4a781be8edf3fd5dce3e5785cb944ea87808c75d03b26b3f89c885098)
    (be_bytes 12 0x0113027eab863f49fc159410)
    (be_bytes 12 0x22d578d41d595752bed66b3e)
    (be_bytes 32 0x5796dc1de412ea8248058ffc015c0888871b05a32b26dac34be23c9661675e92 ++
     be_bytes 5 0x7bc92c0924)
    16 =
  ((be_bytes 32 0x6d8ec5eca79d8ba8ff485e7c7df74bb4ec5a924754dd305846e2966b27b976ac ++
   be_bytes 5 0x7fc45a86d1),
   (be_bytes 16 0xb3cb59e2e0358ae784006ed08d8fd763)).
Proof. vm_compute. reflexivity. Qed.

(* key 16, iv 12, aad 16, pt 32, tag 8 octets *)
Example gcm_ossl_04 :
  aes_gcm_encrypt
    (be_bytes 16 0x8fafc5525294859d0fad8ea67c34260a)
    (be_bytes 12 0xae404a1ca6b90d474d684617)
    (be_bytes 16 0xc9830c0216ec82d95ef21179fc91e754)
    (be_bytes 32 0x3adec34957ad097e15140a0755af7ca2e1f233fbd176d5252d7d3c76d116d415)
    8 =
  ((be_bytes 32 0x0bd313ed0c8f857738f68a12391435bec3e66153d1a352de85882dd3ca1ede28),
   (be_bytes 8 0xf8b913b14104799b)).
Proof. vm_compute. reflexivity. Qed.

(* key 32, iv 12, aad 33, pt 100, tag 16 octets *)
Example gcm_ossl_05 :
  aes_gcm_encrypt
    (be_bytes 32 0xa8f285e31c33425cd7bbbb13ae98acd0020b9288012bf42794caaa5367cf7087)
    (be_bytes 12 0xbcf34047616355333a759968)
    (be_bytes 32 0xffc17876bb2413cd5517063d14cfe930b2ebbbf95ae040cdd55ebd16ba6dea13 ++
     be_bytes 1 0xda)
    (be_bytes 32 0x38c780fdce09df520c3e11968b6ac6bbebd08ecb7e139a60a19c865050d96528 ++
     be_bytes 32 0xebf6a763857afd9c92629929eaf0451b55c4a34acaca9cbc091343e431b495cc ++
     be_bytes 32 0xeef1a412190f990e553016f9184276b4bf64a8d9d5bdbe0e14edcd5e9e3839c0 ++
     be_bytes 4 0x98c311bd)
    16 =
  ((be_bytes 32 0xb07a35f43f272150e6c70b261a6e7d6ae3ab82b866fb3aeca6538fcacb40a041 ++
   be_bytes 32 0x583fee5c0e8b69880f050d368fbe5584dd7690e957c5f1ef31a1d7eb9b4f8df0 ++
   be_bytes 32 0x6b0a8266a237afce025e9a5e774c062d42a199acf6c3a904a065907ca4969cbe ++
   be_bytes 4 0x98848fd4),
   (be_bytes 16 0xfcdcf1c2cb2ed344231e4040d02b1995)).
Proof. vm_compute. reflexivity. Qed.

(* key 24, iv 12, aad 20, pt 17, tag 16 octets *)
Example gcm_ossl_06 :
  aes_gcm_encrypt
    (be_bytes 24 0x42d0b96de6587fc25e6f042d39649a1e0ac80ea3a17a0574)
    (be_bytes 12 0x91a4c8ce4ed6add31e6a609a)
    (be_bytes 20 0x33014bdc06fcb9ac22da9f58e4ebb5f3c237805e)
    (be_bytes 17 0x4c2112922384fb9278fe4429de1c32dd29)
    16 =
  ((be_bytes 17 0x7759d7a59aabb013b35eb18c989fbbfb55),
   (be_bytes 16 0x1636f5b9a0f10d6c6f832dff80bf7a0f)).
Proof. vm_compute. reflexivity. Qed.

(* key 16, iv 1, aad 5, pt 15, tag 16 octets *)
Example gcm_ossl_07 :
  aes_gcm_encrypt
    (be_bytes 16 0x0623093a6a4cc133e15064b83270e1d7)
    (be_bytes 1 0xbd)
    (be_bytes 5 0x496f7d5880)
    (be_bytes 15 0x97d88cc40b5b9bb39d1d393fe977c2)
    16 =
  ((be_bytes 15 0x57bad0c1dc9fc131b7414239b40990),
   (be_bytes 16 0x91bd85b040f143803874d6810a44bfb5)).
Proof. vm_compute. reflexivity. Qed.

(* key 32, iv 16, aad 0, pt 33, tag 8 octets *)
Example gcm_ossl_08 :
  aes_gcm_encrypt
    (be_bytes 32 0xb0459cf229d6f27db9c77a45f4a4c1ce51f12f07409da98b0cd3bb7666966a8f)
    (be_bytes 16 0x22a842eb7621f5beb51c9a25f2cc2aa9)
    []
    (be_bytes 32 0x36f0feb7948704d840ecbd9d75bb11d0b0d35ba3d2e29861bc876588c03c513e ++
     be_bytes 1 0x9e)
    8 =
  ((be_bytes 32 0x329d1b623948845a339cd874fd93fe01a56291585aa7de002d1db6e79ea6f233 ++
   be_bytes 1 0xf3),
   (be_bytes 8 0x089f4dc5d10d43df)).
Proof. vm_compute. reflexivity. Qed.

(* key 16, iv 17, aad 48, pt 1, tag 16 octets *)
Example gcm_ossl_09 :
  aes_gcm_encrypt
    (be_bytes 16 0xab17bb694c66a872f7fe7eede2e30ce1)
    (be_bytes 17 0xf4fea0b3fbf4cf8e610f5ce1ce3be8071b)
    (be_bytes 32 0xf42597fd5918ebad7dd628df9f2854e48f2e932c9da536b260ebec3c900e6358 ++
     be_bytes 16 0x15c0a3613a205bed6ed8718c01464093)
    (be_bytes 1 0xee)
    16 =
  ((be_bytes 1 0x00),
   (be_bytes 16 0x13ab18c88aa5cb451702861cc5c228c9)).
Proof. vm_compute. reflexivity. Qed.

(* key 32, iv 12, aad 12, pt 255, tag 8 octets *)
Example gcm_ossl_10 :
  aes_gcm_encrypt
    (be_bytes 32 0x85abf5570346f9013b4fe6e956af02e132c1f09cfe80f0ac33f2ef994e86bd3b)
    (be_bytes 12 0xdcddee41a59b49187af7bbcb)
    (be_bytes 12 0x488961af96330a9009940c95)
    (be_bytes 32 0xf980c6d6adab9c2ea63373d6bebd4f18e847261d2821d44999fe1af4ae146889 ++
     be_bytes 32 0xabea4548378d594cbc06c75984d4e7a948457fa4cee602c8c5d77031ade1339e ++
     be_bytes 32 0x912ab83e5a702a24318f74ea6f4ef438e813fee155ce77b524a0e204e509c1b1 ++
     be_bytes 32 0x3ab1d49f2739bf72be2c275d859dba8f1b006e6a362a2d4f73f831aca500108a ++
     be_bytes 32 0xc83ba9c3267c0df60d5af8d0c14bff6dbd332978f7fafe955d129f3fdf533208 ++
     be_bytes 32 0x78f157b8f3a011188dbc9bf8425f5b53e7e9bf9e288d108ef7e0e1c463ea6edb ++
     be_bytes 32 0x1f41e6f23f66066304591870c1f14bdf766eb732d62074640ad2410faf51c966 ++
     be_bytes 31 0x5d06fa80c1d4f7ff9c929dbb10c9153cb76db056ce325a1619948f45519d1b)
    8 =
  ((be_bytes 32 0xb9c0a5b8b63986f1f6106f3ad36b13d29cb5e2a5e95a9a868e74f03847d2a802 ++
   be_bytes 32 0x2fbfbe39f1bf00340d926a4ef5f6223429228d86194787a78246407084568ac3 ++
   be_bytes 32 0xeffd6aed1100057939d0ebf58bca56ed0b865a7fad3c81073184941058dda972 ++
   be_bytes 32 0x45369a40848d1872bb7f79466cb8a653b881ede067d6eedaafd8cbbef16607a8 ++
   be_bytes 32 0xee606245f4f0a276a8dbdca025cc3943ee37ec96f27f3dae7e6646108f7e6005 ++
   be_bytes 32 0x77fe46838bc8d817ce3feb0cb805bcba4b10102b263516ce22cee3d124b5840c ++
   be_bytes 32 0x89dcb07e4dcf83034610baeec3fcb44aa09605ff669ebe116d09c6913ba6b528 ++
   be_bytes 31 0x883afcd82044e9aea9093925f4a2ee004000858f8f80568dc7e3ae38aefcb9),
   (be_bytes 8 0x7df1fc12dcdbd7d8)).
Proof. vm_compute. reflexivity. Qed.

(* A 1200-octet plaintext (octet i is i mod 251), 12-octet AAD; ciphertext length, first and
   last 4 ciphertext octets and tag as computed by OpenSSL 3.5. *)
Example gcm_ossl_1200 :
  let '(ct, tag) :=
    aes_gcm_encrypt (be_bytes 16 0xfeffe9928665731c6d6a8f9467308308) (be_bytes 12 0xcafebabefacedbaddecaf888)
      (be_bytes 12 0x800f1234decafbadcafebabe)
      (map (fun i => N.of_nat i mod 251) (seq 0 1200)) 16 in
  (length ct, firstn 4 ct, skipn 1196 ct, tag) =
  (1200%nat, (be_bytes 4 0x9bb32ee4), (be_bytes 4 0x4a839a2f),
   (be_bytes 16 0xe798b5345df6217176e3274365527c06)).
Proof. vm_compute. reflexivity. Qed.

Print Assumptions gcm_encrypt_length.
Print Assumptions gcm_decrypt_tag_mismatch.
Print Assumptions gcm_decrypt_some_inv.
Print Assumptions gcm_decrypt_encrypt.
