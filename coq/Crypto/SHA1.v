(* SHA-1 (FIPS 180-4), executable Gallina, stdlib only.

   Representation: a byte is an [N], a byte string is a [list N]; a 32-bit
   word is an [N] below 2^32 (results are reduced with [N.land _ (2^32-1)]).

   Imports [Srtp.Crypto.CTR] for [be_bytes] (compile CTR.v first).

   Conventions for inputs outside the intended domain (all functions are
   total):
   - [sha1_compress h block] reads the chaining value with [nth i h 0]
     (i = 0..4): missing words are 0, extra words are ignored.  [block] is
     truncated / zero-padded to 64 bytes.  The result always has exactly
     5 words ([sha1_compress_length]).
   - [sha1_blocks h data] processes [length data / 64] blocks; a trailing
     partial block is ignored. *)

From Coq Require Import NArith List Arith Lia.
From Srtp.Crypto Require Import CTR.
Import ListNotations.
Local Open Scope N_scope.

(* ------------------------------------------------------------------ *)
(* 32-bit word operations                                             *)
(* ------------------------------------------------------------------ *)

Definition mask32 : N := 0xffffffff.

Definition w32 (x : N) : N := N.land x mask32.

(* Rotate left by [n] bits (0 < n < 32), for x < 2^32. *)
Definition rotl32 (n x : N) : N :=
  w32 (N.lor (N.shiftl x n) (N.shiftr x (32 - n))).

Definition sha1_ch (b c d : N) : N := N.lxor d (N.land b (N.lxor c d)).
Definition sha1_parity (b c d : N) : N := N.lxor b (N.lxor c d).
Definition sha1_maj (b c d : N) : N :=
  N.lor (N.land b c) (N.land d (N.lor b c)).

(* Big-endian 32-bit words of a byte string (trailing partial word dropped). *)
Fixpoint be_words (l : list N) : list N :=
  match l with
  | a :: b :: c :: d :: rest =>
    N.lor (N.shiftl a 24) (N.lor (N.shiftl b 16) (N.lor (N.shiftl c 8) d))
      :: be_words rest
  | _ => []
  end.

(* ------------------------------------------------------------------ *)
(* Compression function                                               *)
(* ------------------------------------------------------------------ *)

Definition sha1_init : list N :=
  [0x67452301; 0xefcdab89; 0x98badcfe; 0x10325476; 0xc3d2e1f0].

(* Message schedule, kept in reverse order (most recent word first):
   W[t] = rotl 1 (W[t-3] xor W[t-8] xor W[t-14] xor W[t-16]). *)
Fixpoint sha1_sched (n : nat) (wrev : list N) : list N :=
  match n with
  | O => wrev
  | S n' =>
    let w := rotl32 1 (N.lxor (N.lxor (nth 2 wrev 0) (nth 7 wrev 0))
                              (N.lxor (nth 13 wrev 0) (nth 15 wrev 0))) in
    sha1_sched n' (w :: wrev)
  end.

Definition sha1_f (t : nat) (b c d : N) : N :=
  if (t <? 20)%nat then sha1_ch b c d
  else if (t <? 40)%nat then sha1_parity b c d
  else if (t <? 60)%nat then sha1_maj b c d
  else sha1_parity b c d.

Definition sha1_k (t : nat) : N :=
  if (t <? 20)%nat then 0x5a827999
  else if (t <? 40)%nat then 0x6ed9eba1
  else if (t <? 60)%nat then 0x8f1bbcdc
  else 0xca62c1d6.

Fixpoint sha1_rounds (t : nat) (ws : list N) (st : N * N * N * N * N)
  : N * N * N * N * N :=
  match ws with
  | [] => st
  | w :: ws' =>
    let '(a, b, c, d, e) := st in
    let temp := w32 (rotl32 5 a + sha1_f t b c d + e + sha1_k t + w) in
    sha1_rounds (S t) ws' (temp, a, rotl32 30 b, c, d)
  end.

Definition sha1_compress (h : list N) (block : list N) : list N :=
  let h0 := nth 0 h 0 in
  let h1 := nth 1 h 0 in
  let h2 := nth 2 h 0 in
  let h3 := nth 3 h 0 in
  let h4 := nth 4 h 0 in
  let blk := firstn 64 (block ++ repeat 0 64%nat) in
  let ws := rev (sha1_sched 64 (rev (be_words blk))) in
  let '(a, b, c, d, e) := sha1_rounds 0 ws (h0, h1, h2, h3, h4) in
  [w32 (h0 + a); w32 (h1 + b); w32 (h2 + c); w32 (h3 + d); w32 (h4 + e)].

Lemma sha1_compress_length :
  forall h block, length (sha1_compress h block) = 5%nat.
Proof.
  intros. unfold sha1_compress.
  destruct (sha1_rounds _ _ _) as [[[[a b] c] d] e]. reflexivity.
Qed.

(* ------------------------------------------------------------------ *)
(* Padding and iteration                                              *)
(* ------------------------------------------------------------------ *)

(* Number of zero bytes between the 0x80 marker and the 8-byte length. *)
Definition sha1_pad_zeros (len : N) : nat :=
  N.to_nat ((119 - len mod 64) mod 64).

Definition sha1_pad (msg : list N) : list N :=
  let len := N.of_nat (length msg) in
  msg ++ [0x80] ++ repeat 0 (sha1_pad_zeros len) ++ be_bytes 8 (8 * len).

Fixpoint sha1_blocks_n (n : nat) (h : list N) (data : list N) : list N :=
  match n with
  | O => h
  | S n' =>
    sha1_blocks_n n' (sha1_compress h (firstn 64 data)) (skipn 64 data)
  end.

Definition sha1_blocks (h : list N) (data : list N) : list N :=
  sha1_blocks_n (length data / 64) h data.

Definition sha1_words_to_bytes (h : list N) : list N :=
  flat_map (be_bytes 4) h.

Definition sha1 (msg : list N) : list N :=
  sha1_words_to_bytes (sha1_blocks sha1_init (sha1_pad msg)).

(* ------------------------------------------------------------------ *)
(* Structural lemmas                                                  *)
(* ------------------------------------------------------------------ *)

Lemma sha1_blocks_n_length :
  forall n h data,
    length h = 5%nat -> length (sha1_blocks_n n h data) = 5%nat.
Proof.
  induction n as [|n IH]; intros h data H; simpl.
  - exact H.
  - apply IH. apply sha1_compress_length.
Qed.

Lemma sha1_blocks_length :
  forall h data, length h = 5%nat -> length (sha1_blocks h data) = 5%nat.
Proof.
  intros. unfold sha1_blocks. apply sha1_blocks_n_length. assumption.
Qed.

Lemma sha1_words_to_bytes_length :
  forall h, length (sha1_words_to_bytes h) = (4 * length h)%nat.
Proof.
  unfold sha1_words_to_bytes.
  induction h as [|w h IH]; cbn [flat_map length].
  - reflexivity.
  - rewrite app_length, be_bytes_length, IH. lia.
Qed.

Lemma sha1_length : forall msg, length (sha1 msg) = 20%nat.
Proof.
  intros. unfold sha1.
  rewrite sha1_words_to_bytes_length, sha1_blocks_length; reflexivity.
Qed.

(* Block-wise unfolding of [sha1_blocks]. *)
Lemma sha1_blocks_short :
  forall h data, (length data < 64)%nat -> sha1_blocks h data = h.
Proof.
  intros h data H. unfold sha1_blocks.
  rewrite Nat.div_small by exact H. reflexivity.
Qed.

Lemma firstn_app_len :
  forall (A : Type) (a b : list A), firstn (length a) (a ++ b) = a.
Proof. induction a; intros; simpl; congruence. Qed.

Lemma skipn_app_len :
  forall (A : Type) (a b : list A), skipn (length a) (a ++ b) = b.
Proof. induction a; intros; simpl; auto. Qed.

Lemma sha1_blocks_app :
  forall h blk rest,
    length blk = 64%nat ->
    sha1_blocks h (blk ++ rest) = sha1_blocks (sha1_compress h blk) rest.
Proof.
  intros h blk rest H. unfold sha1_blocks.
  rewrite app_length, H.
  replace (64 + length rest)%nat with (1 * 64 + length rest)%nat by lia.
  rewrite Nat.add_comm, Nat.div_add by discriminate.
  rewrite Nat.add_comm.
  cbn [Nat.add sha1_blocks_n].
  replace (firstn 64 (blk ++ rest)) with blk
    by (rewrite <- H; symmetry; apply firstn_app_len).
  replace (skipn 64 (blk ++ rest)) with rest
    by (rewrite <- H; symmetry; apply skipn_app_len).
  reflexivity.
Qed.

(* ------------------------------------------------------------------ *)
(* Test vectors                                                       *)
(* ------------------------------------------------------------------ *)

(* "abc" *)
Example sha1_abc :
  sha1 [0x61; 0x62; 0x63] =
  [0xa9;0x99;0x3e;0x36;0x47;0x06;0x81;0x6a;0xba;0x3e;
   0x25;0x71;0x78;0x50;0xc2;0x6c;0x9c;0xd0;0xd8;0x9d].
Proof. vm_compute. reflexivity. Qed.

(* "" *)
Example sha1_empty :
  sha1 [] =
  [0xda;0x39;0xa3;0xee;0x5e;0x6b;0x4b;0x0d;0x32;0x55;
   0xbf;0xef;0x95;0x60;0x18;0x90;0xaf;0xd8;0x07;0x09].
Proof. vm_compute. reflexivity. Qed.

(* "abcdbcdecdefdefgefghfghighijhijkijkljklmklmnlmnomnopnopq" *)
Example sha1_two_blocks :
  sha1 [0x61;0x62;0x63;0x64; 0x62;0x63;0x64;0x65; 0x63;0x64;0x65;0x66;
        0x64;0x65;0x66;0x67; 0x65;0x66;0x67;0x68; 0x66;0x67;0x68;0x69;
        0x67;0x68;0x69;0x6a; 0x68;0x69;0x6a;0x6b; 0x69;0x6a;0x6b;0x6c;
        0x6a;0x6b;0x6c;0x6d; 0x6b;0x6c;0x6d;0x6e; 0x6c;0x6d;0x6e;0x6f;
        0x6d;0x6e;0x6f;0x70; 0x6e;0x6f;0x70;0x71] =
  [0x84;0x98;0x3e;0x44;0x1c;0x3b;0xd2;0x6e;0xba;0xae;
   0x4a;0xa1;0xf9;0x51;0x29;0xe5;0xe5;0x46;0x70;0xf1].
Proof. vm_compute. reflexivity. Qed.

(* Padded length is a multiple of 64 for all lengths 0..200. *)
Example sha1_pad_length_multiple :
  forallb (fun n => (length (sha1_pad (repeat 0%N n)) mod 64 =? 0)%nat)
          (seq 0 201) = true.
Proof. vm_compute. reflexivity. Qed.

Example sha1_pad_55_56 :
  (length (sha1_pad (repeat 0 55%nat)), length (sha1_pad (repeat 0 56%nat)))
  = (64%nat, 128%nat).
Proof. vm_compute. reflexivity. Qed.
