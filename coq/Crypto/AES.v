(* AES block encryption (FIPS-197), executable Gallina, stdlib only.

   Representation: a byte is an [N], a byte string is a [list N].
   This file is self-contained (it imports nothing from Srtp.Crypto).

   Conventions for inputs outside the intended domain (all functions are
   total):
   - [sub_byte b] looks only at the low 8 bits of [b] (it masks with 255).
   - [xtime b] is the FIPS-197 xtime for b < 256; for larger b it is
     "shift left by one, and if bit 7 of b was set reduce the low byte".
   - [aes_key_expand key] returns [] unless [length key] is 16, 24 or 32.
   - [aes_encrypt_rk rks blk] always returns exactly 16 bytes
     ([aes_encrypt_rk_length]).  With [rks = []] it returns [blk]
     truncated / zero-padded to 16 bytes.  With a single round key it
     returns [blk xor rk0] (normalised to 16 bytes).  A block that is not
     16 bytes long is not meaningful; the result is then merely some
     16-byte string.
   - XOR of two byte lists ([xor_list a b]) has the length of [a]; missing
     bytes of [b] are treated as 0. *)

From Coq Require Import NArith List Bool Arith Lia.
Import ListNotations.
Local Open Scope N_scope.

(* ------------------------------------------------------------------ *)
(* S-box                                                              *)
(* ------------------------------------------------------------------ *)

Definition sbox : list N := [
  0x63; 0x7c; 0x77; 0x7b; 0xf2; 0x6b; 0x6f; 0xc5; 0x30; 0x01; 0x67; 0x2b; 0xfe; 0xd7; 0xab; 0x76;
  0xca; 0x82; 0xc9; 0x7d; 0xfa; 0x59; 0x47; 0xf0; 0xad; 0xd4; 0xa2; 0xaf; 0x9c; 0xa4; 0x72; 0xc0;
  0xb7; 0xfd; 0x93; 0x26; 0x36; 0x3f; 0xf7; 0xcc; 0x34; 0xa5; 0xe5; 0xf1; 0x71; 0xd8; 0x31; 0x15;
  0x04; 0xc7; 0x23; 0xc3; 0x18; 0x96; 0x05; 0x9a; 0x07; 0x12; 0x80; 0xe2; 0xeb; 0x27; 0xb2; 0x75;
  0x09; 0x83; 0x2c; 0x1a; 0x1b; 0x6e; 0x5a; 0xa0; 0x52; 0x3b; 0xd6; 0xb3; 0x29; 0xe3; 0x2f; 0x84;
  0x53; 0xd1; 0x00; 0xed; 0x20; 0xfc; 0xb1; 0x5b; 0x6a; 0xcb; 0xbe; 0x39; 0x4a; 0x4c; 0x58; 0xcf;
  0xd0; 0xef; 0xaa; 0xfb; 0x43; 0x4d; 0x33; 0x85; 0x45; 0xf9; 0x02; 0x7f; 0x50; 0x3c; 0x9f; 0xa8;
  0x51; 0xa3; 0x40; 0x8f; 0x92; 0x9d; 0x38; 0xf5; 0xbc; 0xb6; 0xda; 0x21; 0x10; 0xff; 0xf3; 0xd2;
  0xcd; 0x0c; 0x13; 0xec; 0x5f; 0x97; 0x44; 0x17; 0xc4; 0xa7; 0x7e; 0x3d; 0x64; 0x5d; 0x19; 0x73;
  0x60; 0x81; 0x4f; 0xdc; 0x22; 0x2a; 0x90; 0x88; 0x46; 0xee; 0xb8; 0x14; 0xde; 0x5e; 0x0b; 0xdb;
  0xe0; 0x32; 0x3a; 0x0a; 0x49; 0x06; 0x24; 0x5c; 0xc2; 0xd3; 0xac; 0x62; 0x91; 0x95; 0xe4; 0x79;
  0xe7; 0xc8; 0x37; 0x6d; 0x8d; 0xd5; 0x4e; 0xa9; 0x6c; 0x56; 0xf4; 0xea; 0x65; 0x7a; 0xae; 0x08;
  0xba; 0x78; 0x25; 0x2e; 0x1c; 0xa6; 0xb4; 0xc6; 0xe8; 0xdd; 0x74; 0x1f; 0x4b; 0xbd; 0x8b; 0x8a;
  0x70; 0x3e; 0xb5; 0x66; 0x48; 0x03; 0xf6; 0x0e; 0x61; 0x35; 0x57; 0xb9; 0x86; 0xc1; 0x1d; 0x9e;
  0xe1; 0xf8; 0x98; 0x11; 0x69; 0xd9; 0x8e; 0x94; 0x9b; 0x1e; 0x87; 0xe9; 0xce; 0x55; 0x28; 0xdf;
  0x8c; 0xa1; 0x89; 0x0d; 0xbf; 0xe6; 0x42; 0x68; 0x41; 0x99; 0x2d; 0x0f; 0xb0; 0x54; 0xbb; 0x16
].

Definition sub_byte (b : N) : N := nth (N.to_nat (N.land b 255)) sbox 0.

(* ------------------------------------------------------------------ *)
(* Byte-level helpers                                                 *)
(* ------------------------------------------------------------------ *)

(* Multiplication by x in GF(2^8) modulo x^8+x^4+x^3+x+1. *)
Definition xtime (b : N) : N :=
  if N.testbit b 7
  then N.lxor (N.land (N.shiftl b 1) 255) 0x1b
  else N.shiftl b 1.

(* Pointwise xor; result has the length of [a], missing bytes of [b] are 0. *)
Fixpoint xor_list (a b : list N) : list N :=
  match a, b with
  | [], _ => []
  | _ :: _, [] => a
  | x :: a', y :: b' => N.lxor x y :: xor_list a' b'
  end.

(* Truncate / zero-pad to exactly 16 bytes. *)
Definition take16 (l : list N) : list N := firstn 16 (l ++ repeat 0 16).

Lemma take16_length : forall l, length (take16 l) = 16%nat.
Proof.
  intros l. unfold take16.
  rewrite firstn_length, app_length, repeat_length. lia.
Qed.

(* ------------------------------------------------------------------ *)
(* Round transformations.  The state is the 16-byte list in FIPS-197   *)
(* input order, i.e. column-major: s[r + 4c] is row r, column c.       *)
(* ------------------------------------------------------------------ *)

Definition sub_bytes (s : list N) : list N := map sub_byte s.

Definition shift_rows (s : list N) : list N :=
  match s with
  | [s0; s1; s2; s3; s4; s5; s6; s7; s8; s9; s10; s11; s12; s13; s14; s15] =>
    [s0;  s5;  s10; s15;
     s4;  s9;  s14; s3;
     s8;  s13; s2;  s7;
     s12; s1;  s6;  s11]
  | _ => s
  end.

Definition mix_col (a0 a1 a2 a3 : N) : list N :=
  let x0 := xtime a0 in
  let x1 := xtime a1 in
  let x2 := xtime a2 in
  let x3 := xtime a3 in
  [ N.lxor (N.lxor x0 (N.lxor x1 a1)) (N.lxor a2 a3);
    N.lxor (N.lxor a0 x1) (N.lxor (N.lxor x2 a2) a3);
    N.lxor (N.lxor a0 a1) (N.lxor x2 (N.lxor x3 a3));
    N.lxor (N.lxor (N.lxor x0 a0) a1) (N.lxor a2 x3) ].

(* Processes complete 4-byte columns; a trailing partial column is dropped. *)
Fixpoint mix_columns (s : list N) : list N :=
  match s with
  | a0 :: a1 :: a2 :: a3 :: rest => mix_col a0 a1 a2 a3 ++ mix_columns rest
  | _ => []
  end.

Definition add_round_key (s rk : list N) : list N := xor_list s rk.

(* ------------------------------------------------------------------ *)
(* Key expansion                                                      *)
(* ------------------------------------------------------------------ *)

Definition rot_word (w : list N) : list N :=
  match w with
  | [a; b; c; d] => [b; c; d; a]
  | _ => w
  end.

Definition sub_word (w : list N) : list N := map sub_byte w.

(* Split a byte string into 4-byte words (trailing partial word dropped). *)
Fixpoint words4 (l : list N) : list (list N) :=
  match l with
  | a :: b :: c :: d :: rest => [a; b; c; d] :: words4 rest
  | _ => []
  end.

(* Concatenate each group of 4 words into one 16-byte round key
   (a trailing partial group is dropped). *)
Fixpoint group4 (ws : list (list N)) : list (list N) :=
  match ws with
  | a :: b :: c :: d :: rest => (a ++ b ++ c ++ d) :: group4 rest
  | _ => []
  end.

(* [expand_words fuel i nk rcon w]: [w] holds the words w[0..i-1]; appends
   [fuel] further words.  [rcon] is the round constant to use at the next
   index that is a multiple of [nk]. *)
Fixpoint expand_words (fuel i nk : nat) (rcon : N) (w : list (list N))
  : list (list N) :=
  match fuel with
  | O => w
  | S f =>
    let temp := nth (i - 1) w [] in
    let prev := nth (i - nk) w [] in
    if (i mod nk =? 0)%nat then
      let t := xor_list (sub_word (rot_word temp)) [rcon; 0; 0; 0] in
      expand_words f (S i) nk (xtime rcon) (w ++ [xor_list prev t])
    else if ((6 <? nk) && (i mod nk =? 4))%nat then
      expand_words f (S i) nk rcon (w ++ [xor_list prev (sub_word temp)])
    else
      expand_words f (S i) nk rcon (w ++ [xor_list prev temp])
  end.

(* Expanded key for Nk = nk (4, 6 or 8): 4*(nk+7) words = nk+7 round keys. *)
Definition expand_key (nk : nat) (key : list N) : list (list N) :=
  group4 (expand_words (4 * (nk + 7) - nk) nk nk 1 (words4 key)).

(* Returns 11 / 13 / 15 round keys of 16 bytes for a 16 / 24 / 32 byte key,
   and [] for any other key length. *)
Definition aes_key_expand (key : list N) : list (list N) :=
  match length key with
  | 16%nat => expand_key 4 key
  | 24%nat => expand_key 6 key
  | 32%nat => expand_key 8 key
  | _ => []
  end.

(* ------------------------------------------------------------------ *)
(* Cipher                                                             *)
(* ------------------------------------------------------------------ *)

(* [rks] are the round keys after the initial AddRoundKey; the last one is
   used in the final round (no MixColumns). *)
Fixpoint aes_rounds (rks : list (list N)) (s : list N) : list N :=
  match rks with
  | [] => s
  | [rk] => add_round_key (shift_rows (sub_bytes s)) rk
  | rk :: rest =>
    aes_rounds rest (add_round_key (mix_columns (shift_rows (sub_bytes s))) rk)
  end.

Definition aes_encrypt_rk (rks : list (list N)) (blk : list N) : list N :=
  match rks with
  | [] => take16 blk
  | rk0 :: rest => take16 (aes_rounds rest (add_round_key blk rk0))
  end.

Definition aes_encrypt (key blk : list N) : list N :=
  aes_encrypt_rk (aes_key_expand key) blk.

Lemma aes_encrypt_rk_length :
  forall rks blk, length (aes_encrypt_rk rks blk) = 16%nat.
Proof.
  intros [|rk0 rest] blk; simpl; apply take16_length.
Qed.

Lemma aes_encrypt_length :
  forall key blk, length (aes_encrypt key blk) = 16%nat.
Proof.
  intros. apply aes_encrypt_rk_length.
Qed.

(* ------------------------------------------------------------------ *)
(* Test vectors                                                       *)
(* ------------------------------------------------------------------ *)

Definition test_pt : list N :=
  [0x00;0x11;0x22;0x33;0x44;0x55;0x66;0x77;0x88;0x99;0xaa;0xbb;0xcc;0xdd;0xee;0xff].

Definition test_key32 : list N :=
  [0x00;0x01;0x02;0x03;0x04;0x05;0x06;0x07;0x08;0x09;0x0a;0x0b;0x0c;0x0d;0x0e;0x0f;
   0x10;0x11;0x12;0x13;0x14;0x15;0x16;0x17;0x18;0x19;0x1a;0x1b;0x1c;0x1d;0x1e;0x1f].

(* FIPS-197 Appendix C.1 *)
Example aes128_fips197_c1 :
  aes_encrypt (firstn 16 test_key32) test_pt =
  [0x69;0xc4;0xe0;0xd8;0x6a;0x7b;0x04;0x30;0xd8;0xcd;0xb7;0x80;0x70;0xb4;0xc5;0x5a].
Proof. vm_compute. reflexivity. Qed.

(* FIPS-197 Appendix C.2 *)
Example aes192_fips197_c2 :
  aes_encrypt (firstn 24 test_key32) test_pt =
  [0xdd;0xa9;0x7c;0xa4;0x86;0x4c;0xdf;0xe0;0x6e;0xaf;0x70;0xa0;0xec;0x0d;0x71;0x91].
Proof. vm_compute. reflexivity. Qed.

(* FIPS-197 Appendix C.3 *)
Example aes256_fips197_c3 :
  aes_encrypt test_key32 test_pt =
  [0x8e;0xa2;0xb7;0xca;0x51;0x67;0x45;0xbf;0xea;0xfc;0x49;0x90;0x4b;0x49;0x60;0x89].
Proof. vm_compute. reflexivity. Qed.

(* FIPS-197 Appendix B (key 2b7e1516..., input 3243f6a8...) *)
Example aes128_fips197_b :
  aes_encrypt
    [0x2b;0x7e;0x15;0x16;0x28;0xae;0xd2;0xa6;0xab;0xf7;0x15;0x88;0x09;0xcf;0x4f;0x3c]
    [0x32;0x43;0xf6;0xa8;0x88;0x5a;0x30;0x8d;0x31;0x31;0x98;0xa2;0xe0;0x37;0x07;0x34] =
  [0x39;0x25;0x84;0x1d;0x02;0xdc;0x09;0xfb;0xdc;0x11;0x85;0x97;0x19;0x6a;0x0b;0x32].
Proof. vm_compute. reflexivity. Qed.

(* Number and size of round keys. *)
Example aes_key_expand_shape :
  map (fun n => map (@length N) (aes_key_expand (firstn n test_key32)))
      [16; 24; 32; 17]%nat =
  [repeat 16%nat 11; repeat 16%nat 13; repeat 16%nat 15; []].
Proof. vm_compute. reflexivity. Qed.

(* Last round key of FIPS-197 Appendix A.1. *)
Example aes128_key_expand_a1_last :
  nth 10 (aes_key_expand
    [0x2b;0x7e;0x15;0x16;0x28;0xae;0xd2;0xa6;0xab;0xf7;0x15;0x88;0x09;0xcf;0x4f;0x3c]) [] =
  [0xd0;0x14;0xf9;0xa8;0xc9;0xee;0x25;0x89;0xe1;0x3f;0x0c;0xc8;0xb6;0x63;0x0c;0xa6].
Proof. vm_compute. reflexivity. Qed.
