(* Byte-string utilities used by counter mode and by SHA-1:
   big-endian encoding of numbers and pointwise xor of byte strings.

   Representation: a byte is an [N], a byte string is a [list N].
   This file imports nothing from Srtp.Crypto. *)

From Coq Require Import NArith List Lia.
Import ListNotations.
Local Open Scope N_scope.

(* ------------------------------------------------------------------ *)
(* Big-endian encoding                                                *)
(* ------------------------------------------------------------------ *)

(* [be_bytes_acc n x acc] prepends to [acc] the [n] low-order bytes of [x],
   most significant first. *)
Fixpoint be_bytes_acc (n : nat) (x : N) (acc : list N) : list N :=
  match n with
  | O => acc
  | S n' => be_bytes_acc n' (N.shiftr x 8) (N.land x 255 :: acc)
  end.

(* Big-endian encoding of [x mod 256^n] in exactly [n] bytes. *)
Definition be_bytes (n : nat) (x : N) : list N := be_bytes_acc n x [].

Lemma be_bytes_acc_length :
  forall n x acc, length (be_bytes_acc n x acc) = (n + length acc)%nat.
Proof.
  induction n as [|n IH]; intros x acc; simpl.
  - reflexivity.
  - rewrite IH. simpl. lia.
Qed.

Lemma be_bytes_length : forall n x, length (be_bytes n x) = n.
Proof.
  intros. unfold be_bytes. rewrite be_bytes_acc_length. simpl. lia.
Qed.

Lemma land_255_lt : forall x, N.land x 255 < 256.
Proof.
  intros x. change 255 with (N.ones 8). rewrite N.land_ones.
  apply N.mod_lt. discriminate.
Qed.

Lemma be_bytes_acc_bytes :
  forall n x acc,
    Forall (fun b => b < 256) acc ->
    Forall (fun b => b < 256) (be_bytes_acc n x acc).
Proof.
  induction n as [|n IH]; intros x acc H; simpl.
  - exact H.
  - apply IH. constructor; [apply land_255_lt | exact H].
Qed.

(* Every element of the encoding is a byte. *)
Lemma be_bytes_bytes : forall n x, Forall (fun b => b < 256) (be_bytes n x).
Proof.
  intros. unfold be_bytes. apply be_bytes_acc_bytes. constructor.
Qed.

(* Unfolding equations that avoid the accumulator. *)
Lemma be_bytes_acc_app :
  forall n x acc, be_bytes_acc n x acc = be_bytes_acc n x [] ++ acc.
Proof.
  induction n as [|n IH]; intros x acc; simpl.
  - reflexivity.
  - rewrite (IH _ (_ :: acc)), (IH _ [_]). rewrite <- app_assoc. reflexivity.
Qed.

Lemma be_bytes_0 : forall x, be_bytes 0 x = [].
Proof. reflexivity. Qed.

Lemma be_bytes_S :
  forall n x, be_bytes (S n) x = be_bytes n (N.shiftr x 8) ++ [N.land x 255].
Proof.
  intros. unfold be_bytes. simpl. apply be_bytes_acc_app.
Qed.

(* ------------------------------------------------------------------ *)
(* Pointwise xor                                                      *)
(* ------------------------------------------------------------------ *)

(* [xor_bytes a b]: pointwise [N.lxor].  The result always has the length
   of [a].  Where [b] is shorter than [a] the missing bytes of [b] are
   treated as 0 (the tail of [a] is copied unchanged); where [b] is longer
   the excess bytes of [b] are ignored. *)
Fixpoint xor_bytes (a b : list N) : list N :=
  match a, b with
  | [], _ => []
  | _ :: _, [] => a
  | x :: a', y :: b' => N.lxor x y :: xor_bytes a' b'
  end.

Lemma xor_bytes_length : forall a b, length (xor_bytes a b) = length a.
Proof.
  induction a as [|x a IH]; intros [|y b]; simpl; try reflexivity.
  rewrite IH. reflexivity.
Qed.

Lemma xor_bytes_nil_r : forall a, xor_bytes a [] = a.
Proof. destruct a; reflexivity. Qed.

(* Unconditional version: [N.lxor] is an involution on all of [N], and the
   part of [a] beyond the end of [k] is left unchanged twice. *)
Lemma xor_bytes_involutive_gen :
  forall a k, xor_bytes (xor_bytes a k) k = a.
Proof.
  induction a as [|x a IH]; intros [|y k]; simpl; try reflexivity.
  rewrite IH, N.lxor_assoc, N.lxor_nilpotent, N.lxor_0_r. reflexivity.
Qed.

Lemma xor_bytes_involutive :
  forall a k, (length a <= length k)%nat -> xor_bytes (xor_bytes a k) k = a.
Proof.
  intros a k _. apply xor_bytes_involutive_gen.
Qed.

Lemma xor_bytes_app :
  forall a1 a2 k1 k2,
    length a1 = length k1 ->
    xor_bytes (a1 ++ a2) (k1 ++ k2) = xor_bytes a1 k1 ++ xor_bytes a2 k2.
Proof.
  induction a1 as [|x a1 IH]; intros a2 [|y k1] k2 H; simpl in *;
    try discriminate; try reflexivity.
  rewrite IH by congruence. reflexivity.
Qed.

(* Only the first [length a] bytes of the key stream matter. *)
Lemma xor_bytes_firstn :
  forall a k, xor_bytes a (firstn (length a) k) = xor_bytes a k.
Proof.
  induction a as [|x a IH]; intros [|y k]; simpl; try reflexivity.
  rewrite IH. reflexivity.
Qed.

(* ------------------------------------------------------------------ *)
(* Tests                                                              *)
(* ------------------------------------------------------------------ *)

Example be_bytes_ex1 : be_bytes 4 0x01020304 = [1; 2; 3; 4].
Proof. vm_compute. reflexivity. Qed.

Example be_bytes_ex2 : be_bytes 2 0x01020304 = [3; 4].
Proof. vm_compute. reflexivity. Qed.

Example be_bytes_ex3 : be_bytes 8 24 = [0; 0; 0; 0; 0; 0; 0; 24].
Proof. vm_compute. reflexivity. Qed.

Example xor_bytes_ex1 : xor_bytes [1; 2; 3] [3; 3] = [2; 1; 3].
Proof. vm_compute. reflexivity. Qed.

Example xor_bytes_ex2 : xor_bytes [1; 2] [3; 3; 7] = [2; 1].
Proof. vm_compute. reflexivity. Qed.
