(* EqualModel.v — model of srtp_octet_string_equal (crypto/math/datatypes.c),
   the constant-time comparison, for both compile-time variants:
     oct_equal_sse2      #if defined(__SSE2__)  : chunks of 32 (2 x 16), 16, 8, then bytes
     oct_equal_portable  #else                  : chunks of 8 (2 x 4), 4, then bytes
   Models only, no proofs (proofs are in EqualProofs.v).

   The C pointers a and b advance in lock step; `pos` is their common offset
   from the start (b - b_orig), so `end - b` is `len - pos`.  A load of k
   bytes at the current pointer is `load p pos k`, the little-endian value of
   the bytes p[pos .. pos+k).  (__SSE2__ implies little endian; for the
   portable memcpy into a uint32_t any fixed byte order gives the same
   accumulator-is-zero outcome, little endian is chosen.)  Each step below
   names the byte range it covers, and the ranges follow each other:
   [pos, pos+k) then pos := pos + k. *)
From Coq Require Import Arith NArith List Bool.
From Srtp Require Import Util.
Import ListNotations.
Local Open Scope N_scope.

(* little-endian value of a byte string *)
Fixpoint le_val (l : bytes) : N :=
  match l with
  | [] => 0
  | x :: r => x + 256 * le_val r
  end.

(* memcpy(&v, p + off, k) / _mm_loadu_si128 (k = 16) / _mm_loadl_epi64 (k = 8,
   upper half of the register zero) *)
Definition load (p : bytes) (off k : nat) : N := le_val (slice off k p).

(* (load of a) ^ (load of b) over the byte range [off, off+k) *)
Definition xor_at (a b : bytes) (off k : nat) : N :=
  N.lxor (load a off k) (load b off k).

(* while (b < end) accumulator |= ( *a++ ^ *b++ );   n = end - b iterations,
   iteration covers [pos, pos+1) *)
Fixpoint byte_loop (n : nat) (a b : bytes) (pos : nat) (acc : N) : N :=
  match n with
  | O => acc
  | S n' => byte_loop n' a b (pos + 1) (N.lor acc (xor_at a b pos 1))
  end.

(* ---- portable variant ---- *)

(* for (i = 0, n = length >> 3; i < n; ++i, a += 8, b += 8):
   accumulator  |= a[pos..pos+4)   ^ b[pos..pos+4)
   accumulator2 |= a[pos+4..pos+8) ^ b[pos+4..pos+8) *)
Fixpoint port_loop (n : nat) (a b : bytes) (pos : nat) (acc1 acc2 : N) : nat * N * N :=
  match n with
  | O => (pos, acc1, acc2)
  | S n' => port_loop n' a b (pos + 8)
              (N.lor acc1 (xor_at a b pos 4))
              (N.lor acc2 (xor_at a b (pos + 4) 4))
  end.

Definition oct_equal_portable (a b : bytes) (len : nat) : bool :=
  let '(pos, acc1, acc2) := port_loop (Nat.div len 8) a b 0%nat 0 0 in
  (* accumulator |= accumulator2 *)
  let acc := N.lor acc1 acc2 in
  (* if ((end - b) >= 4) { accumulator |= a[pos..pos+4) ^ b[pos..pos+4); a += 4; b += 4; } *)
  let '(pos, acc) :=
    if (4 <=? len - pos)%nat then ((pos + 4)%nat, N.lor acc (xor_at a b pos 4))
    else (pos, acc) in
  let acc := byte_loop (len - pos) a b pos acc in
  (* return accumulator == 0 *)
  acc =? 0.

(* ---- SSE2 variant ---- *)

(* for (i = 0, n = length >> 5; i < n; ++i, a += 32, b += 32):
   mm_accumulator1 |= a[pos..pos+16)    ^ b[pos..pos+16)
   mm_accumulator2 |= a[pos+16..pos+32) ^ b[pos+16..pos+32) *)
Fixpoint sse_loop (n : nat) (a b : bytes) (pos : nat) (acc1 acc2 : N) : nat * N * N :=
  match n with
  | O => (pos, acc1, acc2)
  | S n' => sse_loop n' a b (pos + 32)
              (N.lor acc1 (xor_at a b pos 16))
              (N.lor acc2 (xor_at a b (pos + 16) 16))
  end.

(* horizontal reduction of the 128-bit accumulator x = (hi64, lo64):
     x |= _mm_unpackhi_epi64(x, x)     (hi64,hi64): low half becomes lo64|hi64,
                                       high half stays hi64 = x | (x >> 64)
     x |= _mm_srli_si128(x, 4)         byte shift by 4 = bit shift by 32
     accumulator = _mm_cvtsi128_si32(x)   low 32 bits *)
Definition fold128 (x : N) : N :=
  let y := N.lor x (N.shiftr x 64) in
  let z := N.lor y (N.shiftr y 32) in
  z mod 2 ^ 32.

Definition oct_equal_sse2 (a b : bytes) (len : nat) : bool :=
  let '(pos, acc1, acc2) := sse_loop (Nat.div len 32) a b 0%nat 0 0 in
  (* mm_accumulator1 |= mm_accumulator2 *)
  let m := N.lor acc1 acc2 in
  (* if ((end - b) >= 16) { one 16-byte chunk [pos, pos+16) } *)
  let '(pos, m) :=
    if (16 <=? len - pos)%nat then ((pos + 16)%nat, N.lor m (xor_at a b pos 16))
    else (pos, m) in
  (* if ((end - b) >= 8) { one 8-byte chunk [pos, pos+8) in the low half } *)
  let '(pos, m) :=
    if (8 <=? len - pos)%nat then ((pos + 8)%nat, N.lor m (xor_at a b pos 8))
    else (pos, m) in
  let acc := fold128 m in
  let acc := byte_loop (len - pos) a b pos acc in
  acc =? 0.
