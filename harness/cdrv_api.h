#ifndef CDRV_API_H
#define CDRV_API_H
#include <stdint.h>
#include <stddef.h>
#define MAXTOK 64
extern long long IA[MAXTOK];
extern int NI;
extern uint8_t *BA[MAXTOK];
extern size_t BL[MAXTOK];
extern int NB;
void out_z(long long v);
void out_u(unsigned long long v);
void out_bytes(const uint8_t *p, size_t n);
void out_words(const uint32_t *w, size_t nwords);
void save_output(int lineno, const uint8_t *p, size_t n);
void api_init(void);
int api_op(const char *name, int lineno);
void api_fini(void);
#endif
