/* cdrv_api.c — session-level operations of the implementation driver, the
 * allocator wrappers (--wrap=calloc,free) and the cipher-type wrappers that
 * log every IV set for encryption. */
#ifdef HAVE_CONFIG_H
#include <config.h>
#endif
#include <stdio.h>
#include <stdlib.h>
#include <string.h>
#include <stdbool.h>
#include <arpa/inet.h>

#include "srtp.h"
#include "srtp_priv.h"
#include "key.h"
#include "rdb.h"
#include "rdbx.h"
#include "datatypes.h"
#include "cipher.h"
#include "cipher_types.h"
#include "auth.h"
#include "sha1.h"
#include "aes.h"
#include "crypto_kernel.h"
#include "stream_list_priv.h"
#include "cdrv_api.h"

/* ------------------------------------------------------------------------- */
/* allocator wrappers                                                         */

void *__real_calloc(size_t, size_t);
void __real_free(void *);

#define MAXBLK 65536
static struct { void *p; size_t n; } blk[MAXBLK];
static int nblk = 0;
static long live = 0;
static long attempts = 0;
static long fail_countdown = 0; /* 0 = off; n = fail the n-th allocation from now */
static int tracking = 0;
static long dirty_frees = 0;
static long frees = 0;

#define MAXSECRET 256
static uint8_t *secret[MAXSECRET];
static size_t secret_len[MAXSECRET];
static int nsecret = 0;

static int find_blk(void *p)
{
    for (int i = nblk - 1; i >= 0; i--)
        if (blk[i].p == p) return i;
    return -1;
}

void *__wrap_calloc(size_t a, size_t b)
{
    if (!tracking) return __real_calloc(a, b);
    attempts++;
    if (fail_countdown > 0 && --fail_countdown == 0) return NULL;
    void *p = __real_calloc(a, b);
    if (p && nblk < MAXBLK) {
        blk[nblk].p = p;
        blk[nblk].n = a * b;
        nblk++;
        live++;
    }
    return p;
}

static int contains(const uint8_t *h, size_t hn, const uint8_t *n, size_t nn)
{
    if (nn == 0 || hn < nn) return 0;
    for (size_t i = 0; i + nn <= hn; i++)
        if (h[i] == n[0] && memcmp(h + i, n, nn) == 0) return 1;
    return 0;
}

/* heap events of one traced call: wipes of (parts of) library blocks and frees, in order */
#define MAXHEV 4096
static struct { uint8_t type; uint32_t size, off, len; } hev[MAXHEV];
static int nhev = 0, hev_on = 0;

void __real_octet_string_set_to_zero(void *s, size_t len);
void __wrap_octet_string_set_to_zero(void *s, size_t len)
{
    if (hev_on && nhev < MAXHEV) {
        for (int i = nblk - 1; i >= 0; i--) {
            uint8_t *b = blk[i].p;
            if ((uint8_t *)s >= b && (uint8_t *)s < b + (blk[i].n ? blk[i].n : 1)) {
                hev[nhev].type = 1; hev[nhev].size = (uint32_t)blk[i].n;
                hev[nhev].off = (uint32_t)((uint8_t *)s - b); hev[nhev].len = (uint32_t)len;
                nhev++;
                break;
            }
        }
    }
    __real_octet_string_set_to_zero(s, len);
}

void __wrap_free(void *p)
{
    if (p) {
        int i = find_blk(p);
        if (i >= 0) {
            if (hev_on && nhev < MAXHEV) {
                hev[nhev].type = 2; hev[nhev].size = (uint32_t)blk[i].n; hev[nhev].off = 0; hev[nhev].len = 0;
                nhev++;
            }
            /* a block the library obtained: scan for registered secrets */
            for (int s = 0; s < nsecret; s++) {
                if (contains((const uint8_t *)p, blk[i].n, secret[s], secret_len[s])) {
                    dirty_frees++;
                    if (getenv("CDRV_DEBUG")) {
                        fprintf(stderr, "dirty free: block of %zu octets still holds registered secret #%d (%zu octets)\n",
                                (size_t)blk[i].n, s, (size_t)secret_len[s]);
                    }
                    break;
                }
            }
            blk[i] = blk[nblk - 1];
            nblk--;
            live--;
            frees++;
        }
    }
    __real_free(p);
}

/* ------------------------------------------------------------------------- */
/* IV logging through wrapped cipher types                                    */

#define MAXIV 64
static uint8_t ivlog[MAXIV][20]; /* 4 bytes key fingerprint + 16 bytes iv */
static int nivlog = 0;
static int ivlog_on = 0;

#define MAXCTX 4096
static struct { void *cv; uint8_t fp[4]; } ctxfp[MAXCTX];
static int nctx = 0;

static srtp_cipher_type_t wrap128, wrap256;
static const srtp_cipher_type_t *orig128, *orig256;
#ifdef OPENSSL
static srtp_cipher_type_t wrap192;          /* AES-ICM-192 exists in the OpenSSL configuration only */
static const srtp_cipher_type_t *orig192;
#endif

static srtp_err_status_t w_alloc(srtp_cipher_t **c, size_t key_len, size_t tlen)
{
    srtp_err_status_t s = orig128->alloc(c, key_len, tlen);
    if (s == srtp_err_status_ok) {
#ifdef OPENSSL
        if ((*c)->type == orig192) { (*c)->type = &wrap192; return s; }
#endif
        (*c)->type = ((*c)->type == orig256) ? &wrap256 : &wrap128;
    }
    return s;
}
static srtp_err_status_t w_dealloc(srtp_cipher_t *c)
{
    for (int i = 0; i < nctx; i++)
        if (ctxfp[i].cv == c->state) { ctxfp[i] = ctxfp[--nctx]; break; }
    return orig128->dealloc(c);
}
static srtp_err_status_t w_init(void *cv, const uint8_t *key)
{
    int i;
    for (i = 0; i < nctx; i++)
        if (ctxfp[i].cv == cv) break;
    if (i == nctx && nctx < MAXCTX) nctx++;
    if (i < MAXCTX) { ctxfp[i].cv = cv; memcpy(ctxfp[i].fp, key, 4); }
    return orig128->init(cv, key);
}
static srtp_err_status_t w_set_iv(void *cv, uint8_t *iv, srtp_cipher_direction_t d)
{
    if (ivlog_on && d == srtp_direction_encrypt && nivlog < MAXIV) {
        memset(ivlog[nivlog], 0, 4);
        for (int i = 0; i < nctx; i++)
            if (ctxfp[i].cv == cv) memcpy(ivlog[nivlog], ctxfp[i].fp, 4);
        memcpy(ivlog[nivlog] + 4, iv, 16);
        nivlog++;
    }
    return orig128->set_iv(cv, iv, d);
}

#ifdef GCM
/* the same for the AES-GCM cipher types (GCM-capable configurations): a repeated (key, IV) pair is fatal for GCM */
static srtp_cipher_type_t wrapg128, wrapg256;
static const srtp_cipher_type_t *origg128, *origg256;
static srtp_err_status_t g_alloc(srtp_cipher_t **c, size_t key_len, size_t tlen)
{
    srtp_err_status_t s = origg128->alloc(c, key_len, tlen);
    if (s == srtp_err_status_ok) (*c)->type = ((*c)->type == origg256) ? &wrapg256 : &wrapg128;
    return s;
}
static srtp_err_status_t g_dealloc(srtp_cipher_t *c)
{
    for (int i = 0; i < nctx; i++)
        if (ctxfp[i].cv == c->state) { ctxfp[i] = ctxfp[--nctx]; break; }
    return origg128->dealloc(c);
}
static srtp_err_status_t g_init(void *cv, const uint8_t *key)
{
    int i;
    for (i = 0; i < nctx; i++)
        if (ctxfp[i].cv == cv) break;
    if (i == nctx && nctx < MAXCTX) nctx++;
    if (i < MAXCTX) { ctxfp[i].cv = cv; memcpy(ctxfp[i].fp, key, 4); }
    return origg128->init(cv, key);
}
static srtp_err_status_t g_set_iv(void *cv, uint8_t *iv, srtp_cipher_direction_t d)
{
    if (ivlog_on && d == srtp_direction_encrypt && nivlog < MAXIV) {
        memset(ivlog[nivlog], 0, 20);
        for (int i = 0; i < nctx; i++)
            if (ctxfp[i].cv == cv) memcpy(ivlog[nivlog], ctxfp[i].fp, 4);
        memcpy(ivlog[nivlog] + 4, iv, 12);       /* a GCM IV has 12 octets */
        nivlog++;
    }
    return origg128->set_iv(cv, iv, d);
}
#endif

/* ------------------------------------------------------------------------- */
/* events                                                                     */

#define MAXEV 64
static uint8_t evlog[MAXEV * 5];
static int nev = 0;
static void ev_handler(srtp_event_data_t *d)
{
    if (nev < MAXEV) {
        evlog[nev * 5] = (uint8_t)d->event;
        uint32_t s = d->ssrc;
        evlog[nev * 5 + 1] = s >> 24; evlog[nev * 5 + 2] = s >> 16;
        evlog[nev * 5 + 3] = s >> 8;  evlog[nev * 5 + 4] = s;
        nev++;
    }
}

/* ------------------------------------------------------------------------- */
/* policies and sessions                                                      */

#define MAXPOL 64
#define MAXSES 64
typedef struct {
    int used;
    srtp_policy_t p;
    srtp_master_key_t mk[32];
    srtp_master_key_t *mkp[32];
    uint8_t *bufs[80];
    int nbufs;
} pol_t;
static pol_t pol[MAXPOL];
static srtp_t ses[MAXSES];

static uint8_t *dupbuf(pol_t *q, const uint8_t *b, size_t n)
{
    uint8_t *r = malloc(n ? n : 1);
    memcpy(r, b, n);
    q->bufs[q->nbufs++] = r;
    return r;
}

static void pol_free(pol_t *q)
{
    for (int i = 0; i < q->nbufs; i++) free(q->bufs[i]);
    memset(q, 0, sizeof(*q));
}

static void add_secret(const uint8_t *b, size_t n)
{
    if (n >= 8 && nsecret < MAXSECRET) {
        secret[nsecret] = malloc(n);
        memcpy(secret[nsecret], b, n);
        secret_len[nsecret++] = n;
    }
}

/* policy <pid> <ssrc_type> <ssrc> <rtp: cipher keylen auth authkeylen taglen serv>
 *        <rtcp: ...6> <use_key_field> <num_master_keys> <use_mki> <mki_size>
 *        <window> <allow_repeat> <cryptex> | <enc_xtn ids> <key0> <mki0> <key1> <mki1> ... */
static void op_policy(void)
{
    int id = (int)IA[0] % MAXPOL;
    pol_t *q = &pol[id];
    pol_free(q);
    q->used = 1;
    srtp_policy_t *p = &q->p;
    memset(p, 0, sizeof(*p));
    p->ssrc.type = (srtp_ssrc_type_t)IA[1];
    p->ssrc.value = (uint32_t)IA[2];
    srtp_crypto_policy_t *cp[2] = { &p->rtp, &p->rtcp };
    for (int k = 0; k < 2; k++) {
        cp[k]->cipher_type = (srtp_cipher_type_id_t)IA[3 + 6 * k];
        cp[k]->cipher_key_len = (size_t)IA[4 + 6 * k];
        cp[k]->auth_type = (srtp_auth_type_id_t)IA[5 + 6 * k];
        cp[k]->auth_key_len = (size_t)IA[6 + 6 * k];
        cp[k]->auth_tag_len = (size_t)IA[7 + 6 * k];
        cp[k]->sec_serv = (srtp_sec_serv_t)IA[8 + 6 * k];
    }
    int use_key_field = (int)IA[15];
    p->num_master_keys = (size_t)IA[16];
    p->use_mki = IA[17] != 0;
    p->mki_size = (size_t)IA[18];
    p->window_size = (size_t)IA[19];
    p->allow_repeat_tx = IA[20] != 0;
    p->use_cryptex = IA[21] != 0;
    if (NB > 0 && BL[0] > 0) {
        p->enc_xtn_hdr = dupbuf(q, BA[0], BL[0]);
        p->enc_xtn_hdr_count = BL[0];
    }
    int nk = (NB - 1) / 2;
    if (nk > 32) nk = 32;
    for (int i = 0; i < nk; i++) {
        q->mk[i].key = dupbuf(q, BA[1 + 2 * i], BL[1 + 2 * i]);
        q->mk[i].mki_id = BL[2 + 2 * i] ? dupbuf(q, BA[2 + 2 * i], BL[2 + 2 * i]) : NULL;
        q->mkp[i] = &q->mk[i];
        add_secret(BA[1 + 2 * i], BL[1 + 2 * i]);
    }
    if (use_key_field) {
        p->key = nk > 0 ? q->mk[0].key : NULL;
        p->keys = NULL;
    } else {
        p->key = NULL;
        p->keys = q->mkp;
    }
    p->next = NULL;
}

static srtp_policy_t *chain(int from)
{
    srtp_policy_t *head = NULL, *tail = NULL;
    for (int i = from; i < NI; i++) {
        pol_t *q = &pol[(int)IA[i] % MAXPOL];
        if (!q->used) continue;
        q->p.next = NULL;
        if (!head) head = &q->p; else tail->next = &q->p;
        tail = &q->p;
    }
    return head;
}

static srtp_stream_ctx_t *pick_stream(srtp_t s, int which, uint32_t ssrc)
{
    if (!s) return NULL;
    if (which == 1) return s->stream_template;
    return srtp_get_stream(s, htonl(ssrc));
}

static void out_events(void)
{
    out_bytes(evlog, (size_t)nev * 5);
    nev = 0;
}

struct count_data { size_t n; };
static bool count_cb(srtp_stream_t st, void *d) { (void)st; ((struct count_data *)d)->n++; return true; }

/* packet op: kind 0 protect, 1 unprotect, 2 protect_rtcp, 3 unprotect_rtcp
 * args: sid mki_index cap mode | pkt
 * mode 0 in place; 1 out-of-place dst zero filled; 2 dst 0xa5.. pattern; 3 dst = copy of input
 * out: status len outbytes src_unchanged guard_ok events ivs */
static void op_packet(int kind, int lineno)
{
    srtp_t s = ses[(int)IA[0] % MAXSES];
    size_t mki_index = (size_t)IA[1];
    size_t cap = (size_t)IA[2];
    int mode = (int)IA[3];
    const uint8_t *pkt = BA[0];
    size_t len = BL[0];
    if (!s || NB < 1) { out_z(-2); return; }
    uint8_t *src, *dst;
    size_t dstsz;
    if (mode == 0) {
        dstsz = len > cap ? len : cap;
        src = dst = malloc(dstsz);
        memset(dst, 0x5a, dstsz);
        memcpy(dst, pkt, len);
    } else {
        src = malloc(len);
        memcpy(src, pkt, len);
        dstsz = cap;
        dst = malloc(cap);
        for (size_t i = 0; i < cap; i++)
            dst[i] = mode == 1 ? 0 : mode == 2 ? (uint8_t)(0xa5 + 7 * i) : (i < len ? pkt[i] : 0x33);
    }
    uint8_t *before = malloc(dstsz ? dstsz : 1);
    memcpy(before, dst, dstsz);
    size_t outlen = cap;
    srtp_err_status_t st;
    nivlog = 0;
    ivlog_on = (kind == 0 || kind == 2);
    switch (kind) {
    case 0: st = srtp_protect(s, src, len, dst, &outlen, mki_index); break;
    case 1: st = srtp_unprotect(s, src, len, dst, &outlen); break;
    case 2: st = srtp_protect_rtcp(s, src, len, dst, &outlen, mki_index); break;
    default: st = srtp_unprotect_rtcp(s, src, len, dst, &outlen); break;
    }
    ivlog_on = 0;
    out_z(st);
    if (st == srtp_err_status_ok) {
        out_u(outlen);
        out_bytes(dst, outlen <= dstsz ? outlen : dstsz);
        save_output(lineno, dst, outlen <= dstsz ? outlen : dstsz);
    } else {
        save_output(lineno, NULL, 0);
        out_u(0);
        out_bytes(NULL, 0);
    }
    /* src untouched (out-of-place) */
    out_z(mode == 0 ? 1 : (memcmp(src, pkt, len) == 0));
    /* nothing at or beyond cap modified (in-place with cap < len is the only case a
       write beyond cap can land inside the block; ASan covers the rest) */
    int guard_ok = 1;
    for (size_t i = cap; i < dstsz; i++)
        if (dst[i] != before[i]) guard_ok = 0;
    out_z(guard_ok);
    out_events();
    out_bytes(&ivlog[0][0], (size_t)nivlog * 20);
    if (mode != 0) free(src);
    free(dst);
    free(before);
}

static void dump_stream(srtp_stream_ctx_t *st)
{
    if (!st) { out_z(-1); return; }
    out_z(0);
    out_u(st->rtp_rdbx.index);
    out_u(st->rtp_rdbx.bitmask.length);
    out_words(st->rtp_rdbx.bitmask.word, st->rtp_rdbx.bitmask.length / 32);
    out_u(st->rtcp_rdb.window_start);
    out_words(st->rtcp_rdb.bitmask.v32, 4);
    out_u(st->pending_roc);
    out_z(st->direction);
    out_u(st->session_keys[0].limit->num_left);
    out_z(st->session_keys[0].limit->state);
}

int api_op(const char *name, int lineno)
{
    if (!strcmp(name, "policy")) { op_policy(); return 1; }
    if (!strcmp(name, "create")) {
        int sid = (int)IA[0] % MAXSES;
        srtp_policy_t *pl = chain(1);
        srtp_t s = NULL;
        srtp_err_status_t st = srtp_create(&s, pl);
        ses[sid] = (st == srtp_err_status_ok) ? s : NULL;
        out_z(st);
        return 1;
    }
    if (!strcmp(name, "add")) {
        srtp_t s = ses[(int)IA[0] % MAXSES];
        pol_t *q = &pol[(int)IA[1] % MAXPOL];
        q->p.next = NULL;
        out_z(s ? (long long)srtp_stream_add(s, q->used ? &q->p : NULL) : -2);
        return 1;
    }
    if (!strcmp(name, "update")) {
        srtp_t s = ses[(int)IA[0] % MAXSES];
        out_z(s ? (long long)srtp_update(s, chain(1)) : -2);
        return 1;
    }
    if (!strcmp(name, "stream_update")) {
        srtp_t s = ses[(int)IA[0] % MAXSES];
        pol_t *q = &pol[(int)IA[1] % MAXPOL];
        q->p.next = NULL;
        out_z(s ? (long long)srtp_stream_update(s, q->used ? &q->p : NULL) : -2);
        return 1;
    }
    if (!strcmp(name, "remove")) {
        srtp_t s = ses[(int)IA[0] % MAXSES];
        out_z(s ? (long long)srtp_stream_remove(s, (uint32_t)IA[1]) : -2);
        return 1;
    }
    if (!strcmp(name, "dealloc")) {
        int sid = (int)IA[0] % MAXSES;
        if (ses[sid]) { out_z(srtp_dealloc(ses[sid])); ses[sid] = NULL; }
        else out_z(-2);
        return 1;
    }
    if (!strcmp(name, "protect")) { op_packet(0, lineno); return 1; }
    if (!strcmp(name, "unprotect")) { op_packet(1, lineno); return 1; }
    if (!strcmp(name, "protect_rtcp")) { op_packet(2, lineno); return 1; }
    if (!strcmp(name, "unprotect_rtcp")) { op_packet(3, lineno); return 1; }
    if (!strcmp(name, "setroc")) {
        srtp_t s = ses[(int)IA[0] % MAXSES];
        out_z(s ? (long long)srtp_stream_set_roc(s, (uint32_t)IA[1], (uint32_t)IA[2]) : -2);
        return 1;
    }
    if (!strcmp(name, "getroc")) {
        srtp_t s = ses[(int)IA[0] % MAXSES];
        uint32_t roc = 0;
        if (!s) { out_z(-2); return 1; }
        srtp_err_status_t st = srtp_stream_get_roc(s, (uint32_t)IA[1], &roc);
        out_z(st); out_u(st ? 0 : roc);
        return 1;
    }
    if (!strcmp(name, "trailer")) {
        srtp_t s = ses[(int)IA[0] % MAXSES];
        size_t l = 0;
        if (!s) { out_z(-2); return 1; }
        srtp_err_status_t st = IA[1] ? srtp_get_protect_trailer_length(s, (size_t)IA[2], &l)
                                     : srtp_get_protect_rtcp_trailer_length(s, (size_t)IA[2], &l);
        out_z(st); out_u(st ? 0 : l);
        return 1;
    }
    if (!strcmp(name, "poke_limit")) { /* sid which ssrc keyidx num_left state */
        srtp_stream_ctx_t *st = pick_stream(ses[(int)IA[0] % MAXSES], (int)IA[1], (uint32_t)IA[2]);
        if (st && (size_t)IA[3] < st->num_master_keys) {
            st->session_keys[IA[3]].limit->num_left = (uint64_t)IA[4];
            st->session_keys[IA[3]].limit->state = (srtp_key_state_t)IA[5];
            out_z(0);
        } else out_z(-1);
        return 1;
    }
    if (!strcmp(name, "poke_rtcp")) { /* sid which ssrc window_start */
        srtp_stream_ctx_t *st = pick_stream(ses[(int)IA[0] % MAXSES], (int)IA[1], (uint32_t)IA[2]);
        if (st) { st->rtcp_rdb.window_start = (uint32_t)IA[3]; out_z(0); } else out_z(-1);
        return 1;
    }
    if (!strcmp(name, "poke_index")) { /* sid which ssrc index */
        srtp_stream_ctx_t *st = pick_stream(ses[(int)IA[0] % MAXSES], (int)IA[1], (uint32_t)IA[2]);
        if (st) { st->rtp_rdbx.index = (uint64_t)IA[3]; out_z(0); } else out_z(-1);
        return 1;
    }
    if (!strcmp(name, "peek")) { /* sid which ssrc */
        dump_stream(pick_stream(ses[(int)IA[0] % MAXSES], (int)IA[1], (uint32_t)IA[2]));
        return 1;
    }
    if (!strcmp(name, "nstreams")) {
        srtp_t s = ses[(int)IA[0] % MAXSES];
        struct count_data d = { 0 };
        if (s) srtp_stream_list_for_each(s->stream_list, count_cb, &d);
        out_u(d.n); out_z(s && s->stream_template ? 1 : 0);
        return 1;
    }
    if (!strcmp(name, "dealloc_trace") || !strcmp(name, "remove_trace")) {
        int sid = (int)IA[0] % MAXSES;
        long long st = -2;           /* no such session (an enum-typed -2 would print as fffffffe) */
        nhev = 0;
        if (ses[sid]) {
            hev_on = 1;
            if (name[0] == 'd') { st = srtp_dealloc(ses[sid]); ses[sid] = NULL; }
            else st = srtp_stream_remove(ses[sid], (uint32_t)IA[1]);
            hev_on = 0;
        }
        out_z(st);
        uint8_t *buf = malloc((size_t)nhev * 13 + 1);
        for (int i = 0; i < nhev; i++) {
            uint8_t *q = buf + 13 * i;
            q[0] = hev[i].type;
            uint32_t v[3] = { hev[i].size, hev[i].off, hev[i].len };
            for (int j = 0; j < 3; j++) { q[1 + 4 * j] = v[j] >> 24; q[2 + 4 * j] = v[j] >> 16; q[3 + 4 * j] = v[j] >> 8; q[4 + 4 * j] = v[j]; }
        }
        out_bytes(buf, (size_t)nhev * 13);
        free(buf);
        return 1;
    }
    if (!strcmp(name, "mktag")) { /* sid which ssrc keyidx is_rtcp | msg : the tag a holder of the stream's keys computes */
        srtp_stream_ctx_t *st = pick_stream(ses[(int)IA[0] % MAXSES], (int)IA[1], (uint32_t)IA[2]);
        uint8_t tag[64];
        memset(tag, 0, sizeof tag);
        out_z(0); out_z(0);
        if (st && (size_t)IA[3] < st->num_master_keys && NB > 0) {
            srtp_auth_t *a = IA[4] ? st->session_keys[IA[3]].rtcp_auth : st->session_keys[IA[3]].rtp_auth;
            size_t tl = srtp_auth_get_tag_length(a);
            if (a->type->id == SRTP_NULL_AUTH || tl > sizeof tag) tl = 0;
            srtp_auth_start(a);
            srtp_auth_compute(a, BA[0], BL[0], tag);
            out_bytes(tag, tl);
            save_output(lineno, tag, tl);
        } else {
            out_bytes(NULL, 0);
            save_output(lineno, NULL, 0);
        }
        return 1;
    }
    if (!strcmp(name, "stdpol") || !strcmp(name, "profpol")) { /* n  |  profile is_rtcp : the policy helper functions */
        static void (*const setters[])(srtp_crypto_policy_t *) = {
            srtp_crypto_policy_set_rtp_default, srtp_crypto_policy_set_rtcp_default,
            srtp_crypto_policy_set_aes_cm_128_hmac_sha1_32, srtp_crypto_policy_set_aes_cm_128_null_auth,
            srtp_crypto_policy_set_null_cipher_hmac_sha1_80, srtp_crypto_policy_set_null_cipher_hmac_null,
            srtp_crypto_policy_set_aes_cm_256_hmac_sha1_80, srtp_crypto_policy_set_aes_cm_256_hmac_sha1_32,
            srtp_crypto_policy_set_aes_cm_256_null_auth, srtp_crypto_policy_set_aes_cm_192_hmac_sha1_80,
            srtp_crypto_policy_set_aes_cm_192_hmac_sha1_32, srtp_crypto_policy_set_aes_cm_192_null_auth,
            srtp_crypto_policy_set_aes_gcm_128_16_auth, srtp_crypto_policy_set_aes_gcm_256_16_auth };
        srtp_crypto_policy_t p;
        srtp_err_status_t st = srtp_err_status_ok;
        memset(&p, 0, sizeof p);
        if (!strcmp(name, "stdpol")) {
            if (IA[0] < 0 || IA[0] >= (long long)(sizeof setters / sizeof setters[0])) st = srtp_err_status_bad_param;
            else setters[IA[0]](&p);
        } else {
            st = IA[1] ? srtp_crypto_policy_set_from_profile_for_rtcp(&p, (srtp_profile_t)IA[0])
                       : srtp_crypto_policy_set_from_profile_for_rtp(&p, (srtp_profile_t)IA[0]);
        }
        out_z(st);
        if (!st) { out_z(p.cipher_type); out_z((long long)p.cipher_key_len); out_z(p.auth_type); out_z((long long)p.auth_key_len);
                   out_z((long long)p.auth_tag_len); out_z(p.sec_serv); }
        return 1;
    }
    if (!strcmp(name, "proflen")) {
        out_z((long long)srtp_profile_get_master_key_length((srtp_profile_t)IA[0]));
        out_z((long long)srtp_profile_get_master_salt_length((srtp_profile_t)IA[0]));
        return 1;
    }
    if (!strcmp(name, "failnth")) { fail_countdown = IA[0]; return 1; }
    if (!strcmp(name, "reinit")) { /* n : srtp_shutdown; srtp_init with the n-th allocation failing; srtp_shutdown; normal bring-up again.
                                       prints: status of the failing init, of the shutdown after it, library blocks still live after that
                                       shutdown, status of the final bring-up.  Only with no session alive. */
        for (int i = 0; i < MAXSES; i++)
            if (ses[i]) { out_z(-2); return 1; }
        void api_init(void);
        srtp_shutdown();
        long live0 = live;
        fail_countdown = IA[0];
        srtp_err_status_t st1 = srtp_init();
        fail_countdown = 0;
        srtp_err_status_t st2 = srtp_shutdown();
        long leaked = live - live0;
        tracking = 0;                       /* the blocks of the final bring-up are the library's own for the rest of the run */
        srtp_err_status_t st3 = srtp_init();
        if (st3 == srtp_err_status_ok) { srtp_shutdown(); api_init(); }
        tracking = 1;
        out_z(st1); out_z(st2); out_z(leaked); out_z(st3);
        if (st3 != srtp_err_status_ok) { fflush(stdout); exit(0); }      /* nothing further can run */
        return 1;
    }
    if (!strcmp(name, "heap")) { /* live blocks, attempts and frees since last call, dirty frees */
        static long last_att = 0, last_free = 0;
        fail_countdown = 0;
        out_z(live); out_z(attempts - last_att); out_z(frees - last_free); out_z(dirty_frees);
        last_att = attempts; last_free = frees;
        return 1;
    }
    if (!strcmp(name, "secret")) { if (NB > 0) add_secret(BA[0], BL[0]); return 1; }
    /* ---- kernel leaf ops that need the crypto API ---- */
    if (!strcmp(name, "oct_eq")) {
        size_t n = BL[0] < BL[1] ? BL[0] : BL[1];
        out_z(srtp_octet_string_equal(BA[0], BA[1], n) ? 1 : 0);
        return 1;
    }
    if (!strcmp(name, "v128_shift")) {
        v128_t x;
        memset(&x, 0, sizeof x);
        for (size_t i = 0; i < BL[0] && i < 16; i++) {
            size_t bitpos = (BL[0] - 1 - i) * 8;
            x.v32[bitpos / 32] |= (uint32_t)BA[0][i] << (bitpos % 32);
        }
        v128_left_shift(&x, (size_t)IA[0]);
        out_words(x.v32, 4);
        return 1;
    }
    if (!strcmp(name, "bv_shift")) { /* len shift | value */
        bitvector_t v;
        if (!bitvector_alloc(&v, (size_t)IA[0])) { out_z(-1); return 1; }
        for (size_t i = 0; i < BL[0]; i++) {
            size_t bitpos = (BL[0] - 1 - i) * 8;
            if (bitpos / 32 < v.length / 32) v.word[bitpos / 32] |= (uint32_t)BA[0][i] << (bitpos % 32);
        }
        bitvector_left_shift(&v, (size_t)IA[1]);
        out_u(v.length);
        out_words(v.word, v.length / 32);
        bitvector_dealloc(&v);
        return 1;
    }
#ifndef OPENSSL   /* the internal SHA-1 / AES are not part of the library in the OpenSSL configuration */
    if (!strcmp(name, "sha1")) { /* chunk sizes as ints | msg */
        srtp_sha1_ctx_t c;
        uint32_t h[5];
        srtp_sha1_init(&c);
        size_t off = 0;
        for (int i = 0; i < NI && off < BL[0]; i++) {
            size_t n = (size_t)IA[i];
            if (n > BL[0] - off) n = BL[0] - off;
            srtp_sha1_update(&c, BA[0] + off, n);
            off += n;
        }
        if (off < BL[0]) srtp_sha1_update(&c, BA[0] + off, BL[0] - off);
        srtp_sha1_final(&c, h);
        out_bytes((uint8_t *)h, 20);
        return 1;
    }
#endif
    if (!strcmp(name, "hmac")) { /* taglen chunk... | key msg */
        srtp_auth_t *a = NULL;
        uint8_t tag[32];
        memset(tag, 0, sizeof tag);
        srtp_err_status_t st = srtp_crypto_kernel_alloc_auth(SRTP_HMAC_SHA1, &a, BL[0], (size_t)IA[0]);
        if (st) { out_z(st); return 1; }
        st = srtp_auth_init(a, BA[0]);
        if (!st) st = srtp_auth_start(a);
        size_t off = 0;
        for (int i = 1; i < NI && off < BL[1] && !st; i++) {
            size_t n = (size_t)IA[i];
            if (n > BL[1] - off) n = BL[1] - off;
            st = srtp_auth_update(a, BA[1] + off, n);
            off += n;
        }
        if (!st) st = srtp_auth_compute(a, BA[1] + off, BL[1] - off, tag);
        out_z(st);
        out_bytes(tag, (size_t)IA[0] <= 20 ? (size_t)IA[0] : 20);
        srtp_auth_dealloc(a);
        return 1;
    }
    if (!strcmp(name, "icm")) { /* misalign chunk... | key(30|46) iv(16) data ; output = concatenated encrypt results + final status */
        srtp_cipher_t *c = NULL;
        srtp_err_status_t st = srtp_crypto_kernel_alloc_cipher(
            BL[0] == 46 ? SRTP_AES_ICM_256 : SRTP_AES_ICM_128, &c, BL[0], 0);
        if (st) { out_z(st); return 1; }
        st = srtp_cipher_init(c, BA[0]);
        uint8_t iv[16];
        memset(iv, 0, 16);
        memcpy(iv, BA[1], BL[1] < 16 ? BL[1] : 16);
        if (!st) st = srtp_cipher_set_iv(c, iv, srtp_direction_encrypt);
        /* IA[0]: bits 0-3 misalignment of the source; bit 4: not in place, then bits 5-8 = misalignment of the destination
           and bits 9-16 = the octet the destination is pre-filled with (the model ignores IA[0]: the result must not depend on it) */
        size_t mis = (size_t)IA[0] & 15;
        int oop = (int)((IA[0] >> 4) & 1);
        size_t dmis = (size_t)(IA[0] >> 5) & 15;
        uint8_t *raw = malloc(BL[2] + 16);
        uint8_t *buf = raw + mis;
        uint8_t *raw2 = malloc(BL[2] + 16);
        uint8_t *dst = oop ? raw2 + dmis : buf;
        memcpy(buf, BA[2], BL[2]);
        memset(raw2, (int)((IA[0] >> 9) & 255), BL[2] + 16);
        size_t off = 0;
        for (int i = 1; i < NI && off < BL[2] && !st; i++) {
            size_t n = (size_t)IA[i];
            if (n > BL[2] - off) n = BL[2] - off;
            size_t ol = n;
            st = srtp_cipher_encrypt(c, buf + off, n, dst + off, &ol);
            if (!st) off += n;
        }
        if (!st && off < BL[2]) {
            size_t n = BL[2] - off, ol = n;
            st = srtp_cipher_encrypt(c, buf + off, n, dst + off, &ol);
            if (!st) off += n;
        }
        out_z(st);
        out_bytes(dst, off);
        free(raw);
        free(raw2);
        srtp_cipher_dealloc(c);
        return 1;
    }
#ifndef OPENSSL
    if (!strcmp(name, "aes")) { /* | key(16|32) block(16) */
        srtp_aes_expanded_key_t ek;
        v128_t b;
        srtp_err_status_t st = srtp_aes_expand_encryption_key(BA[0], BL[0], &ek);
        memset(&b, 0, sizeof b);
        memcpy(&b, BA[1], BL[1] < 16 ? BL[1] : 16);
        if (!st) srtp_aes_encrypt(&b, &ek);
        out_z(st);
        out_bytes(b.v8, 16);
        return 1;
    }
#endif
    return 0;
}

void api_init(void)
{
    srtp_err_status_t st = srtp_init();
    if (st) { fprintf(stderr, "srtp_init failed %d\n", st); exit(3); }
    srtp_install_event_handler(ev_handler);
    /* wrap the AES-ICM cipher types so that every IV set for encryption is observable */
    orig128 = &srtp_aes_icm_128;
    orig256 = &srtp_aes_icm_256;
    wrap128 = srtp_aes_icm_128;
    wrap256 = srtp_aes_icm_256;
    wrap128.alloc = wrap256.alloc = w_alloc;
    wrap128.dealloc = wrap256.dealloc = w_dealloc;
    wrap128.init = wrap256.init = w_init;
    wrap128.set_iv = wrap256.set_iv = w_set_iv;
    st = srtp_replace_cipher_type(&wrap128, SRTP_AES_ICM_128);
    if (!st) st = srtp_replace_cipher_type(&wrap256, SRTP_AES_ICM_256);
#ifdef OPENSSL
    orig192 = &srtp_aes_icm_192;
    wrap192 = srtp_aes_icm_192;
    wrap192.alloc = w_alloc; wrap192.dealloc = w_dealloc; wrap192.init = w_init; wrap192.set_iv = w_set_iv;
    if (!st) st = srtp_replace_cipher_type(&wrap192, SRTP_AES_ICM_192);
#endif
#ifdef GCM
    origg128 = &srtp_aes_gcm_128; origg256 = &srtp_aes_gcm_256;
    wrapg128 = srtp_aes_gcm_128; wrapg256 = srtp_aes_gcm_256;
    wrapg128.alloc = wrapg256.alloc = g_alloc; wrapg128.dealloc = wrapg256.dealloc = g_dealloc;
    wrapg128.init = wrapg256.init = g_init; wrapg128.set_iv = wrapg256.set_iv = g_set_iv;
    if (!st) st = srtp_replace_cipher_type(&wrapg128, SRTP_AES_GCM_128);
    if (!st) st = srtp_replace_cipher_type(&wrapg256, SRTP_AES_GCM_256);
#endif
    if (st) { fprintf(stderr, "replace_cipher_type failed %d\n", st); exit(3); }
    tracking = 1;
}

void api_fini(void)
{
    for (int i = 0; i < MAXSES; i++)
        if (ses[i]) { srtp_dealloc(ses[i]); ses[i] = NULL; }
    for (int i = 0; i < MAXPOL; i++) pol_free(&pol[i]);
    tracking = 0;
    srtp_shutdown();
    for (int i = 0; i < nsecret; i++) free(secret[i]);
}
