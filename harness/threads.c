/* threads.c — C19 supporting run: N threads, each driving its own sender / receiver sessions
 * (create, traffic incl. wildcard cloning, RTCP, update, remove, dealloc) against libsrtp built
 * with ThreadSanitizer.  Every thread's transcript digest must equal the digest of the same
 * scenario run sequentially.  Exit 0 = equal and no race reported; 1 = digest mismatch;
 * ThreadSanitizer aborts with its own exit code (66) on a data race. */
#include <stdio.h>
#include <stdlib.h>
#include <string.h>
#include <stdint.h>
#include <pthread.h>
#include "srtp.h"

#define MAXT 16
static int rounds = 20;

static uint64_t fnv(uint64_t h, const void *p, size_t n)
{
    const uint8_t *b = p;
    for (size_t i = 0; i < n; i++) { h ^= b[i]; h *= 1099511628211ull; }
    return h;
}

static uint64_t scenario(int tid)
{
    uint64_t h = 1469598103934665603ull ^ (uint64_t)tid;
    for (int r = 0; r < rounds; r++) {
        srtp_policy_t ps, pr, pe;
        uint8_t key[46], key2[46];
        for (int i = 0; i < 46; i++) { key[i] = (uint8_t)(tid * 31 + r * 7 + i); key2[i] = (uint8_t)(key[i] ^ 0x5a); }
        memset(&ps, 0, sizeof ps); memset(&pr, 0, sizeof pr); memset(&pe, 0, sizeof pe);
        srtp_crypto_policy_set_rtp_default(&ps.rtp); srtp_crypto_policy_set_rtcp_default(&ps.rtcp);
        if ((tid + r) & 1) { srtp_crypto_policy_set_aes_cm_256_hmac_sha1_80(&ps.rtp); srtp_crypto_policy_set_aes_cm_256_hmac_sha1_80(&ps.rtcp); }
        ps.ssrc.type = ssrc_any_outbound; ps.key = key; ps.window_size = 128;
        pr = ps; pr.ssrc.type = ssrc_any_inbound;
        pe = ps; pe.ssrc.type = ssrc_specific; pe.ssrc.value = 0x1000u + (unsigned)tid; pe.key = key2;
        pe.rtp = ps.rtp; pe.rtcp = ps.rtcp;
        /* header-extension encryption (RFC 6904) on every round, cryptex on every third */
        uint8_t xids[2] = { 1, 3 };
        ps.enc_xtn_hdr = xids; ps.enc_xtn_hdr_count = 2; pr.enc_xtn_hdr = xids; pr.enc_xtn_hdr_count = 2;
        pe.enc_xtn_hdr = xids; pe.enc_xtn_hdr_count = 2;
        if ((tid + r) % 3 == 0) { ps.use_cryptex = true; pr.use_cryptex = true; pe.use_cryptex = true; }
        ps.next = &pe; pr.next = NULL;
        srtp_t snd = NULL, rcv = NULL;
        srtp_err_status_t st = srtp_create(&snd, &ps);
        h = fnv(h, &st, sizeof st);
        pe.next = NULL;
        srtp_policy_t pr2 = pr; srtp_policy_t pe2 = pe; pr2.next = &pe2;
        st = srtp_create(&rcv, &pr2);
        h = fnv(h, &st, sizeof st);
        if (!snd || !rcv) continue;
        for (int k = 0; k < 12; k++) {
            uint32_t ssrc = (k % 3 == 0) ? 0x1000u + (unsigned)tid : 0x2000u + (unsigned)(k % 4);
            uint8_t pkt[256], out[256];
            memset(pkt, 0, sizeof pkt);
            pkt[0] = 0x80; pkt[1] = 96; pkt[2] = (uint8_t)(k >> 8); pkt[3] = (uint8_t)(k + 1);
            pkt[8] = ssrc >> 24; pkt[9] = ssrc >> 16; pkt[10] = ssrc >> 8; pkt[11] = ssrc;
            for (int i = 12; i < 60; i++) pkt[i] = (uint8_t)(i * (k + 3) + tid);
            if (k & 1) {
                /* one-byte header extension: elements id 1 (3 octets), id 2 (2 octets), id 3 (1 octet), padding */
                pkt[0] = 0x90; pkt[12] = 0xbe; pkt[13] = 0xde; pkt[14] = 0; pkt[15] = 3;
                pkt[16] = 0x12; pkt[20] = 0x21; pkt[23] = 0x30; pkt[25] = 0; pkt[26] = 0; pkt[27] = 0;
            }
            size_t len = sizeof pkt;
            st = srtp_protect(snd, pkt, 60, pkt, &len, 0);
            h = fnv(h, &st, sizeof st);
            if (st == srtp_err_status_ok) {
                h = fnv(h, pkt, len);
                size_t ol = sizeof out;
                st = srtp_unprotect(rcv, pkt, len, out, &ol);
                h = fnv(h, &st, sizeof st);
                if (st == srtp_err_status_ok) h = fnv(h, out, ol);
                ol = sizeof out;
                st = srtp_unprotect(rcv, pkt, len, out, &ol); /* replay */
                h = fnv(h, &st, sizeof st);
            }
            uint8_t rt[128], ro[128];
            memset(rt, 0, sizeof rt);
            rt[0] = 0x80; rt[1] = 200; rt[3] = 6;
            rt[4] = ssrc >> 24; rt[5] = ssrc >> 16; rt[6] = ssrc >> 8; rt[7] = ssrc;
            for (int i = 8; i < 28; i++) rt[i] = (uint8_t)(i + k + tid);
            len = sizeof rt;
            st = srtp_protect_rtcp(snd, rt, 28, rt, &len, 0);
            h = fnv(h, &st, sizeof st);
            if (st == srtp_err_status_ok) {
                h = fnv(h, rt, len);
                size_t ol = sizeof ro;
                st = srtp_unprotect_rtcp(rcv, rt, len, ro, &ol);
                h = fnv(h, &st, sizeof st);
            }
            if (k == 6) {
                srtp_policy_t up = pe; up.key = key; up.next = NULL;
                st = srtp_update(snd, &up); h = fnv(h, &st, sizeof st);
                st = srtp_update(rcv, &up); h = fnv(h, &st, sizeof st);
                uint32_t roc = 0;
                st = srtp_stream_get_roc(snd, pe.ssrc.value, &roc); h = fnv(h, &roc, sizeof roc);
            }
            if (k == 9) { st = srtp_stream_remove(snd, 0x2001u); h = fnv(h, &st, sizeof st); }
        }
        size_t tl = 0;
        srtp_get_protect_trailer_length(snd, 0, &tl); h = fnv(h, &tl, sizeof tl);
        srtp_dealloc(snd); srtp_dealloc(rcv);
    }
    return h;
}

static uint64_t result[MAXT];
static void *worker(void *a) { int t = (int)(intptr_t)a; result[t] = scenario(t); return NULL; }

int main(int argc, char **argv)
{
    int n = argc > 1 ? atoi(argv[1]) : 8;
    if (argc > 2) rounds = atoi(argv[2]);
    if (n > MAXT) n = MAXT;
    if (srtp_init()) return 3;
    uint64_t seq[MAXT];
    for (int t = 0; t < n; t++) seq[t] = scenario(t);
    pthread_t th[MAXT];
    for (int t = 0; t < n; t++) pthread_create(&th[t], NULL, worker, (void *)(intptr_t)t);
    for (int t = 0; t < n; t++) pthread_join(th[t], NULL);
    int bad = 0;
    for (int t = 0; t < n; t++) {
        printf("thread %d sequential %016llx concurrent %016llx %s\n", t, (unsigned long long)seq[t],
               (unsigned long long)result[t], seq[t] == result[t] ? "same" : "DIFFERENT");
        if (seq[t] != result[t]) bad = 1;
    }
    srtp_shutdown();
    return bad;
}
