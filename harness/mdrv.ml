(* mdrv.ml — model side of the correspondence check.  Reads an operation
   script on stdin, runs each line through the extracted Coq function
   Model.run_op and prints one line of hex values per operation.
   Line syntax:  <name> <int>* [ '|' <bytes>* ]     ints are hex with optional '-',
   byte strings are hex, the empty string is "-".  '#' starts a comment line. *)
open Model

let hexval_opt c = match c with
  | '0'..'9' -> Char.code c - 48
  | 'a'..'f' -> Char.code c - 87
  | 'A'..'F' -> Char.code c - 55
  | _ -> -1
let hexval c = match c with
  | '0'..'9' -> Char.code c - 48
  | 'a'..'f' -> Char.code c - 87
  | 'A'..'F' -> Char.code c - 55
  | _ -> failwith "hex"

(* hex string (no sign) -> positive option *)
let pos_of_hex (s : string) : positive option =
  let acc = ref None in
  String.iter (fun c ->
    let v = hexval c in
    for k = 3 downto 0 do
      let bit = (v lsr k) land 1 = 1 in
      acc := (match !acc with
              | None -> if bit then Some XH else None
              | Some p -> Some (if bit then XI p else XO p))
    done) s;
  !acc

let n_of_hex s = match pos_of_hex s with None -> N0 | Some p -> Npos p
let z_of_hex s =
  if String.length s > 0 && s.[0] = '-' then
    (match pos_of_hex (String.sub s 1 (String.length s - 1)) with None -> Z0 | Some p -> Zneg p)
  else (match pos_of_hex s with None -> Z0 | Some p -> Zpos p)

let rec bits_of_pos p acc = match p with
  | XH -> true :: acc
  | XO q -> bits_of_pos q (false :: acc)
  | XI q -> bits_of_pos q (true :: acc)
(* returns bits LSB first *)
let hex_of_pos p =
  let bits = List.rev (bits_of_pos p []) in (* LSB first *)
  let buf = Buffer.create 16 in
  let rec go bs acc = match bs with
    | [] -> acc
    | _ ->
      let rec takek k bs v sh = if k = 0 then (v, bs) else match bs with
        | [] -> (v, [])
        | b :: r -> takek (k-1) r (if b then v lor (1 lsl sh) else v) (sh+1) in
      let (v, rest) = takek 4 bs 0 0 in
      go rest ("0123456789abcdef".[v] :: acc) in
  List.iter (Buffer.add_char buf) (go bits []);
  Buffer.contents buf
let hex_of_n n = match n with N0 -> "0" | Npos p -> hex_of_pos p
let hex_of_z z = match z with Z0 -> "0" | Zpos p -> hex_of_pos p | Zneg p -> "-" ^ hex_of_pos p

let small_n (i : int) : n = n_of_hex (Printf.sprintf "%x" i)
let int_of_n (x : n) : int = int_of_string ("0x" ^ hex_of_n x)

let bytes_of_hex s : n list =
  if s = "-" then [] else begin
    let l = String.length s / 2 in
    List.init l (fun i -> small_n (hexval s.[2*i] * 16 + hexval s.[2*i+1]))
  end
let hex_of_bytes (b : n list) =
  if b = [] then "-" else
  String.concat "" (List.map (fun x -> Printf.sprintf "%02x" (int_of_n x)) b)

(* outputs of earlier operations by script line:  @N ~K <K +HEX  (see cdrv.c) *)
let saved : (int, n list) Hashtbl.t = Hashtbl.create 1024
let rec take_n k l = if k <= 0 then [] else match l with [] -> [] | x :: r -> x :: take_n (k-1) r
let parse_barg (s : string) : n list =
  let len = String.length s in
  let pos = ref 0 in
  let read_hex () =
    let st = !pos in
    while !pos < len && hexval_opt s.[!pos] >= 0 do incr pos done;
    String.sub s st (!pos - st) in
  let cur = ref [] in
  if len > 0 && s.[0] = '-' then incr pos
  else if len > 0 && s.[0] = '@' then begin
    incr pos;
    let ln = int_of_string ("0x" ^ read_hex ()) in
    cur := (try Hashtbl.find saved ln with Not_found -> [])
  end else begin
    let h = read_hex () in
    cur := bytes_of_hex (if h = "" then "-" else h)
  end;
  let rec drop_n k l = if k <= 0 then l else match l with [] -> [] | _ :: r -> drop_n (k-1) r in
  while !pos < len do
    let op = s.[!pos] in
    incr pos;
    let h = read_hex () in
    (match op with
     | '+' -> cur := !cur @ bytes_of_hex (if h = "" then "-" else h)
     | '~' -> let v = int_of_string ("0x" ^ h) in
              cur := List.mapi (fun i x -> if i = v lsr 3 then small_n ((int_of_n x) lxor (0x80 lsr (v land 7))) else x) !cur
     | '<' -> let v = int_of_string ("0x" ^ h) in cur := take_n v !cur
     | '&' -> let ln2 = int_of_string ("0x" ^ h) in
              let j = if !pos < len && s.[!pos] = ':' then (incr pos; int_of_string ("0x" ^ read_hex ())) else 0 in
              let src = (try Hashtbl.find saved ln2 with Not_found -> []) in
              cur := !cur @ drop_n j src
     | _ -> ())
  done;
  !cur

let opcodes = Hashtbl.create 64
let () = List.iter (fun (n, c) -> Hashtbl.replace opcodes n c) [
  "kl_set", 1; "kl_poke", 2; "kl_upd", 3;
  "rdb_init", 10; "rdb_poke", 11; "rdb_check", 12; "rdb_add", 13; "rdb_incr", 14;
  "rdbx_init", 20; "rdbx_poke", 21; "rdbx_est", 22; "rdbx_estp", 23; "rdbx_check", 24;
  "rdbx_add", 25; "rdbx_setrs", 26; "guess", 27;
  "aes", 30; "icm_init", 31; "icm_iv", 32; "icm_enc", 33; "sha1", 34; "hmac", 35; "oct_eq", 36;
  "v128_shift", 37; "bv_shift", 38;
  "policy", 50; "create", 51; "add", 52; "remove", 53; "update", 54; "dealloc", 55;
  "protect", 56; "unprotect", 57; "protect_rtcp", 58; "unprotect_rtcp", 59;
  "setroc", 60; "getroc", 61; "trailer", 62; "poke_limit", 63; "poke_rtcp", 64; "poke_index", 65;
  "failnth", 66; "peek", 67; "stream_update", 68; "nstreams", 69;
  "spec_rtp", 70; "spec_rtcp", 71; "spec_kdf", 72; "heap", 73; "secret", 74; "icm", 33; "mktag", 75; "secrets", 76; "dealloc_trace", 77; "remove_trace", 78;
  "stdpol", 79; "profpol", 80; "proflen", 81 ]

let () =
  let st = ref ms_init in
  let lineno = ref 0 in
  (try while true do
    let line = input_line stdin in
    incr lineno;
    let line = String.trim line in
    if line <> "" && line.[0] <> '#' then begin
      let toks = List.filter (fun s -> s <> "") (String.split_on_char ' ' line) in
      match toks with
      | [] -> ()
      | name :: rest ->
        let rec split acc = function
          | [] -> (List.rev acc, [])
          | "|" :: r -> (List.rev acc, r)
          | x :: r -> split (x :: acc) r in
        let (ints, bts) = split [] rest in
        let code = try Hashtbl.find opcodes name with Not_found -> 0 in
        let (st', outs) = run_op !st (z_of_hex (Printf.sprintf "%x" code))
                            (List.map z_of_hex ints) (List.map parse_barg bts) in
        st := st';
        (match List.filter (function OB _ -> true | _ -> false) outs with
         | OB b :: _ -> Hashtbl.replace saved !lineno b
         | _ -> ());
        let strs = List.map (function OZ z -> hex_of_z z | ON n -> hex_of_n n | OB b -> hex_of_bytes b) outs in
        print_string (string_of_int !lineno ^ " " ^ name);
        List.iter (fun s -> print_char ' '; print_string s) strs;
        print_newline ()
    end
  done with End_of_file -> ())
