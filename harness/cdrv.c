/* cdrv.c — implementation side of the correspondence check.
 * Reads the same operation script as harness/mdrv.ml, drives libsrtp (built
 * from /repo's working tree with ASan+UBSan) and prints one line of hex values
 * per operation in the same format.  Uses the public API plus the private
 * headers the repo's own tests use.  No source hooks. */
#ifdef HAVE_CONFIG_H
#include <config.h>
#endif
#include <stdio.h>
#include <stdlib.h>
#include <string.h>
#include <stdint.h>
#include <stdbool.h>
#include <inttypes.h>
#include <arpa/inet.h>

#include "srtp.h"
#include "srtp_priv.h"
#include "key.h"
#include "rdb.h"
#include "rdbx.h"
#include "datatypes.h"
#include "cipher.h"
#include "auth.h"
#include "crypto_kernel.h"

#include "cdrv_api.h"



static char *line = NULL;
static size_t linecap = 0;

long long IA[MAXTOK]; /* integer args */
int NI;
uint8_t *BA[MAXTOK]; /* byte-string args (malloc'd exact size, +0) */
size_t BL[MAXTOK];
int NB;

static int hexval(int c)
{
    if (c >= '0' && c <= '9') return c - '0';
    if (c >= 'a' && c <= 'f') return c - 'a' + 10;
    if (c >= 'A' && c <= 'F') return c - 'A' + 10;
    return -1;
}

static long long parse_int(const char *s)
{
    int neg = 0;
    unsigned long long v = 0;
    if (*s == '-') { neg = 1; s++; }
    for (; *s; s++) v = (v << 4) | (unsigned)hexval(*s);
    return neg ? -(long long)v : (long long)v;
}

/* outputs of earlier packet operations, by script line, so that later lines can
   feed them back:  @N  with modifiers  ~K (flip bit K)  <K (truncate to K bytes)  +HEX (append) */
#define MAXSAVE 65536
static uint8_t *saved[MAXSAVE];
static size_t saved_len[MAXSAVE];
void save_output(int lineno, const uint8_t *p, size_t n)
{
    if (lineno < 0 || lineno >= MAXSAVE) return;
    free(saved[lineno]);
    saved[lineno] = malloc(n ? n : 1);
    if (n) memcpy(saved[lineno], p, n);
    saved_len[lineno] = n;
}

static void parse_bytes(const char *s, int k)
{
    /* <base><modifier>*   base = '-' (empty) | hex digits | @N (output of line N)
       modifiers: ~K flip bit K, <K truncate to K bytes, +HEX append, &N:J append saved[N][J..] */
    size_t n = 0, cap = strlen(s) / 2 + 16;
    uint8_t *b = malloc(cap);
    const char *e = s;
    if (*e == '-') {
        e++;
    } else if (*e == '@') {
        char *q;
        long ln = strtol(e + 1, &q, 16);
        e = q;
        if (ln >= 0 && ln < MAXSAVE && saved[ln]) {
            n = saved_len[ln];
            cap += n;
            b = realloc(b, cap);
            memcpy(b, saved[ln], n);
        }
    } else {
        while (hexval(e[0]) >= 0 && hexval(e[1]) >= 0) {
            b[n++] = (uint8_t)(hexval(e[0]) * 16 + hexval(e[1]));
            e += 2;
        }
    }
    while (*e) {
        char op = *e++;
        if (op == '+') {
            while (hexval(e[0]) >= 0 && hexval(e[1]) >= 0) {
                b[n++] = (uint8_t)(hexval(e[0]) * 16 + hexval(e[1]));
                e += 2;
            }
        } else if (op == '&') {
            char *q;
            unsigned long ln2 = strtoul(e, &q, 16), j = 0;
            e = q;
            if (*e == ':') { j = strtoul(e + 1, &q, 16); e = q; }
            if (ln2 < MAXSAVE && saved[ln2] && j < saved_len[ln2]) {
                size_t add = saved_len[ln2] - j;
                cap += add;
                b = realloc(b, cap);
                memcpy(b + n, saved[ln2] + j, add);
                n += add;
            }
        } else {
            char *q;
            unsigned long v = strtoul(e, &q, 16);
            e = q;
            if (op == '~') { if ((v >> 3) < n) b[v >> 3] ^= (uint8_t)(0x80 >> (v & 7)); }
            else if (op == '<') { if (v < n) n = v; }
        }
    }
    /* exact-size copy so that ASan guards the end */
    BA[k] = malloc(n ? n : 1);
    if (n) memcpy(BA[k], b, n);
    BL[k] = n;
    free(b);
}

/* ---- output ---- */
static int first_out;
void out_begin(int lineno, const char *name) { printf("%d %s", lineno, name); first_out = 0; }
void out_z(long long v)
{
    if (v < 0) printf(" -%llx", (unsigned long long)(-(v + 1)) + 1ull);
    else printf(" %llx", (unsigned long long)v);
}
void out_u(unsigned long long v) { printf(" %llx", v); }
void out_bytes(const uint8_t *p, size_t n)
{
    if (n == 0) { printf(" -"); return; }
    putchar(' ');
    for (size_t i = 0; i < n; i++) printf("%02x", p[i]);
}
/* little-endian array of 32-bit words as one hex number */
void out_words(const uint32_t *w, size_t nwords)
{
    size_t i = nwords;
    while (i > 0 && w[i - 1] == 0) i--;
    if (i == 0) { printf(" 0"); return; }
    printf(" %x", w[i - 1]);
    for (i--; i > 0; i--) printf("%08x", w[i - 1]);
}
void out_end(void) { putchar('\n'); }

/* ---- leaf state ---- */
static srtp_key_limit_ctx_t kl;
static srtp_rdb_t rdb;
static srtp_rdbx_t rdbx;
static int rdbx_live = 0;

/* big-endian hex number -> little-endian 32-bit words */
static void words_from_be(const uint8_t *b, size_t n, uint32_t *w, size_t nwords)
{
    memset(w, 0, nwords * 4);
    for (size_t i = 0; i < n; i++) {
        size_t bitpos = (n - 1 - i) * 8;
        if (bitpos / 32 < nwords) w[bitpos / 32] |= (uint32_t)b[i] << (bitpos % 32);
    }
}

static int leaf_op(const char *name)
{
    if (!strcmp(name, "kl_set")) {
        srtp_err_status_t s = srtp_key_limit_set(&kl, (uint64_t)IA[0]);
        out_z(s); out_u(kl.num_left); out_z(kl.state);
    } else if (!strcmp(name, "kl_poke")) {
        kl.num_left = (uint64_t)IA[0];
        kl.state = (srtp_key_state_t)IA[1];
    } else if (!strcmp(name, "kl_upd")) {
        srtp_key_event_t e = srtp_key_limit_update(&kl);
        out_z(e); out_u(kl.num_left); out_z(kl.state);
    } else if (!strcmp(name, "rdb_init")) {
        srtp_rdb_init(&rdb);
    } else if (!strcmp(name, "rdb_poke")) {
        rdb.window_start = (uint32_t)IA[0];
        words_from_be(BA[0], BL[0], rdb.bitmask.v32, 4);
    } else if (!strcmp(name, "rdb_check")) {
        out_z(srtp_rdb_check(&rdb, (uint32_t)IA[0]));
    } else if (!strcmp(name, "rdb_add")) {
        out_z(srtp_rdb_add_index(&rdb, (uint32_t)IA[0]));
        out_u(rdb.window_start); out_words(rdb.bitmask.v32, 4);
    } else if (!strcmp(name, "rdb_incr")) {
        out_z(srtp_rdb_increment(&rdb)); out_u(rdb.window_start);
    } else if (!strcmp(name, "rdbx_init")) {
        if (rdbx_live) { srtp_rdbx_dealloc(&rdbx); rdbx_live = 0; }
        srtp_err_status_t s = srtp_rdbx_init(&rdbx, (size_t)IA[0]);
        if (s == srtp_err_status_ok) rdbx_live = 1;
        out_z(s); out_u(s ? 0 : srtp_rdbx_get_window_size(&rdbx));
    } else if (!strcmp(name, "rdbx_poke")) {
        rdbx.index = (uint64_t)IA[0];
        words_from_be(BA[0], BL[0], rdbx.bitmask.word, rdbx.bitmask.length / 32);
    } else if (!strcmp(name, "rdbx_est")) {
        srtp_xtd_seq_num_t est;
        ssize_t d = srtp_rdbx_estimate_index(&rdbx, &est, (uint16_t)IA[0]);
        out_u(est); out_z(d);
    } else if (!strcmp(name, "rdbx_check")) {
        out_z(srtp_rdbx_check(&rdbx, (ssize_t)IA[0]));
    } else if (!strcmp(name, "rdbx_add")) {
        srtp_rdbx_add_index(&rdbx, (ssize_t)IA[0]);
        out_u(rdbx.index); out_words(rdbx.bitmask.word, rdbx.bitmask.length / 32);
    } else if (!strcmp(name, "rdbx_setrs")) {
        out_z(srtp_rdbx_set_roc_seq(&rdbx, (uint32_t)IA[0], (uint16_t)IA[1]));
        out_u(rdbx.index); out_words(rdbx.bitmask.word, rdbx.bitmask.length / 32);
    } else if (!strcmp(name, "guess")) {
        srtp_xtd_seq_num_t local = (uint64_t)IA[0], g;
        ssize_t d = srtp_index_guess(&local, &g, (uint16_t)IA[1]);
        out_u(g); out_z(d);
    } else {
        return 0;
    }
    return 1;
}

int main(int argc, char **argv)
{
    int lineno = 0;
    (void)argc; (void)argv;
    setvbuf(stdout, NULL, _IOFBF, 1 << 16);
    srtp_rdbx_init(&rdbx, 128); /* before allocation tracking starts */
    rdbx_live = 1;
    api_init();
    while (getline(&line, &linecap, stdin) > 0) {
        lineno++;
        char *p = line;
        while (*p == ' ') p++;
        size_t L = strlen(p);
        while (L && (p[L - 1] == '\n' || p[L - 1] == '\r' || p[L - 1] == ' ')) p[--L] = 0;
        if (!*p || *p == '#') continue;
        char *save = NULL;
        char *name = strtok_r(p, " ", &save);
        NI = NB = 0;
        int inbytes = 0;
        for (char *t; (t = strtok_r(NULL, " ", &save));) {
            if (!strcmp(t, "|")) { inbytes = 1; continue; }
            if (inbytes) { if (NB < MAXTOK) parse_bytes(t, NB++); }
            else if (NI < MAXTOK) IA[NI++] = parse_int(t);
        }
        for (int i = NI; i < MAXTOK; i++) IA[i] = 0;
        out_begin(lineno, name);
        if (!strncmp(name, "spec_", 5) || !strcmp(name, "secrets")) { /* model-side only */ }
        else if (!leaf_op(name) && !api_op(name, lineno)) out_z(-1);
        out_end();
        fflush(stdout);
        for (int i = 0; i < NB; i++) free(BA[i]);
    }
    if (rdbx_live) srtp_rdbx_dealloc(&rdbx);
    api_fini();
    free(line);
    return 0;
}
