"""gen.py — script generators and reference sets shared by the property modules.
Every random choice comes from the random.Random passed in."""

def H(v):
    return ("-%x" % -v) if v < 0 else ("%x" % v)

def hexb(b):
    return b.hex() if len(b) else "-"

# --------------------------------------------------------------------------
# SRTCP replay window: leaf scripts + set-based reference

class RtcpRef:
    """RFC-level reference: set of accepted indices, window of 128 behind the highest."""
    def __init__(self):
        self.seen = set()
        self.hi = None
    def verdict(self, i):
        if i in self.seen:
            return False
        if self.hi is not None and self.hi - i > 127:
            return False
        return True
    def add(self, i):
        self.seen.add(i)
        if self.hi is None or i > self.hi:
            self.hi = i
        if len(self.seen) > 4096:
            self.seen = {x for x in self.seen if self.hi - x <= 200}


def rdb_leaf_script(rng, n, start=0, style="mixed"):
    ref = RtcpRef()
    lines = ["rdb_init"]
    if start:
        # window_start = start, top bit set: index start+127 is the highest accepted
        lines.append(f"rdb_poke {H(start)} | 80000000000000000000000000000000")
        ref.add(start + 127)
    cur = (ref.hi or 0)
    truth = []
    for _ in range(n):
        r = rng.random()
        hi = ref.hi if ref.hi is not None else 0
        if style == "seq" or r < 0.35:
            i = hi + 1
        elif r < 0.55:
            i = hi + rng.choice([1, 2, 3, 5, 17, 126, 127, 128, 129, 130, 255, 256, 1000])
        elif r < 0.8:
            i = hi - rng.choice([0, 1, 2, 3, 60, 64, 100, 126, 127, 128, 129, 130, 200])
        elif r < 0.9:
            i = rng.choice(sorted(ref.seen)[-20:]) if ref.seen else hi
        else:
            i = hi + rng.randrange(1, 1 << 20)
        i = max(0, min(i, (1 << 31) - 1))
        v = ref.verdict(i)
        lines.append(f"rdb_check {H(i)}")
        truth.append((i, v))
        if v:
            lines.append(f"rdb_add {H(i)}")
            ref.add(i)
    return "\n".join(lines) + "\n", truth


def rdb_leaf_monitor(script, c):
    """replays the reference over the script and compares the implementation's rdb_check verdicts"""
    ref = RtcpRef()
    hits = []
    sl = [l for l in script.split("\n") if l.strip()]
    out = {int(l.split()[0]): l.split() for l in c if l.strip()}
    for n, l in enumerate(sl, 1):
        t = l.split()
        if t[0] == "rdb_init":
            ref = RtcpRef()
        elif t[0] == "rdb_poke":
            ref = RtcpRef(); ref.add(int(t[1], 16) + 127)
        elif t[0] == "rdb_check":
            i = int(t[1], 16)
            o = out.get(n)
            if not o or len(o) < 3:
                continue
            ok = int(o[2], 16) == 0
            want = ref.verdict(i)
            if ok and i in ref.seen:
                hits.append({"what": "SRTCP replay: an index already accepted passes the replay check again",
                             "signature": "rtcp-replay-accepted-twice", "detail": f"line {n}: {l} -> {' '.join(o)}"})
                break
            if ok and not want:
                hits.append({"what": "SRTCP replay: index more than 127 behind the highest accepted one passes the replay check",
                             "signature": "rtcp-replay-old-accepted", "detail": f"line {n}: {l} -> {' '.join(o)}"})
                break
            if not ok and want:
                hits.append({"what": "SRTCP replay: unseen index inside the window (or ahead) rejected",
                             "signature": "rtcp-replay-fresh-rejected", "detail": f"line {n}: {l} -> {' '.join(o)}"})
                break
        elif t[0] == "rdb_add":
            ref.add(int(t[1], 16))
    return hits

# --------------------------------------------------------------------------
# SRTP replay window / index estimation

def roundup32(ws):
    return (ws + 31) // 32 * 32

def rfc_estimate(idx, s):
    """RFC 3711 3.3.1 / App. A estimate against local index idx (no 2^32 wrap handling)."""
    roc, sl = idx >> 16, idx & 0xffff
    if sl < 32768:
        v = roc - 1 if s - sl > 32768 else roc
    else:
        v = roc + 1 if sl - 32768 > s else roc
    return (v << 16) | s

class RtpRef:
    def __init__(self, ws):
        self.ws = ws
        self.eff = roundup32(ws)
        self.seen = set()
        self.hi = 0
    def add(self, i):
        self.seen.add(i)
        if i > self.hi:
            self.hi = i
        if len(self.seen) > 70000:
            self.seen = {x for x in self.seen if self.hi - x <= 40000}
    def verdict(self, i):
        """None = unspecified (between configured and effective window)"""
        if i in self.seen:
            return False
        if self.hi - i >= self.eff:
            return False
        if self.hi - i < self.ws:
            return True
        return None

# --------------------------------------------------------------------------
# session-level scripts

NULL_CIPHER, ICM128, ICM192, ICM256, GCM128, GCM256 = 0, 1, 4, 5, 6, 7
NULL_AUTH, HMAC = 0, 3
SSRC_UNDEF, SSRC_SPECIFIC, SSRC_ANY_IN, SSRC_ANY_OUT = 0, 1, 2, 3

def cp(cipher=ICM128, keylen=30, auth=HMAC, authkeylen=20, taglen=10, serv=3):
    return (cipher, keylen, auth, authkeylen, taglen, serv)

def policy_line(pid, ssrc_type=SSRC_SPECIFIC, ssrc=0xcafebabe, rtp=None, rtcp=None, key=None, keys=None,
                use_mki=False, mki_size=0, window=128, allow_repeat=False, cryptex=False, enc_xtn=b"",
                nkeys=None, use_key_field=None):
    rtp = rtp or cp(); rtcp = rtcp or cp()
    if keys is None:
        keys = [(key if key is not None else bytes(range(1, 1 + max(rtp[1], rtcp[1]))), b"")]
        if use_key_field is None:
            use_key_field = True
    if use_key_field is None:
        use_key_field = False
    if nkeys is None:
        nkeys = 0 if use_key_field else len(keys)
    ints = [pid, ssrc_type, ssrc, *rtp, *rtcp, int(use_key_field), nkeys, int(use_mki), mki_size, window,
            int(allow_repeat), int(cryptex)]
    bts = [hexb(enc_xtn)]
    for k, m in keys:
        bts += [hexb(k), hexb(m)]
    return "policy " + " ".join(H(i) for i in ints) + " | " + " ".join(bts)


def rtp_packet(ssrc, seq, payload=b"", pt=0x60, ts=0x11223344, marker=0, cc=0, csrcs=None, ext=None, version=2, pad=0):
    """ext = (profile, data) with len(data) % 4 == 0"""
    csrcs = csrcs if csrcs is not None else [0x10000000 + i for i in range(cc)]
    b0 = (version << 6) | (pad << 5) | ((1 if ext is not None else 0) << 4) | (len(csrcs) & 15)
    b = bytes([b0, (marker << 7) | (pt & 0x7f)]) + (seq & 0xffff).to_bytes(2, "big") + (ts & 0xffffffff).to_bytes(4, "big") \
        + (ssrc & 0xffffffff).to_bytes(4, "big")
    for c in csrcs:
        b += (c & 0xffffffff).to_bytes(4, "big")
    if ext is not None:
        prof, data = ext
        b += prof.to_bytes(2, "big") + (len(data) // 4).to_bytes(2, "big") + data
    return b + payload


def rtcp_packet(ssrc, body=b"", pt=200, rc=0):
    n = (8 + len(body)) // 4 - 1
    return bytes([0x80 | rc, pt]) + (n & 0xffff).to_bytes(2, "big") + (ssrc & 0xffffffff).to_bytes(4, "big") + body


def one_byte_ext(elems, pad_lead=0, pad_between=0):
    """elems: list of (id, data) with 1 <= len(data) <= 16; returns (0xBEDE, bytes padded to 4)"""
    d = b"\x00" * pad_lead
    for i, (eid, data) in enumerate(elems):
        d += bytes([(eid << 4) | (len(data) - 1)]) + data + b"\x00" * pad_between
    while len(d) % 4:
        d += b"\x00"
    return (0xBEDE, d)


def two_byte_ext(elems, appbits=0, pad_between=0):
    d = b""
    for eid, data in elems:
        d += bytes([eid, len(data)]) + data + b"\x00" * pad_between
    while len(d) % 4:
        d += b"\x00"
    return (0x1000 | appbits, d)


def pkt_op(op, sid, pkt, cap=None, mode=0, mki_index=0, extra=0):
    """pkt: bytes or a back-reference string '@N...'"""
    if isinstance(pkt, bytes):
        n = len(pkt); ph = hexb(pkt)
    else:
        n = None; ph = pkt
    if cap is None:
        cap = (n if n is not None else 0) + extra
    return f"{op} {H(sid)} {H(mki_index)} {H(max(cap, 0))} {H(mode)} | {ph}"
