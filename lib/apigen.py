"""apigen.py — structured generators for session-level scripts (policies, packets, scenarios)."""
from lib.gen import *

TAGS = [0, 4, 10, 10, 10, 16]

# AEAD mode: while set, rand_policy / default_policy produce AES-GCM policies (RFC 7714: cipher GCM-128/256 with a
# 12-octet salt, NULL auth whose tag length 16 or 8 is the GCM tag length) — used by the families that run in the
# OpenSSL configuration, where those cipher types exist
AEAD = False
AEAD_MIX = None        # True: the SRTP and SRTCP halves of every generated GCM policy have different key sizes

def gcm_cp(bits=128, tag=16, serv=3):
    return cp(cipher=GCM128 if bits == 128 else GCM256, keylen=28 if bits == 128 else 44, auth=NULL_AUTH, authkeylen=0, taglen=tag, serv=serv)

def with_aead(fn, *a, **kw):
    """run a script generator with AEAD mode on (keyword aead_mix=True: key sizes of the two halves always differ)"""
    global AEAD, AEAD_MIX
    AEAD = True
    AEAD_MIX = kw.pop("aead_mix", None)
    try:
        return fn(*a, **kw)
    finally:
        AEAD = False
        AEAD_MIX = None

def rand_key(rng, n):
    return bytes(rng.randrange(256) for _ in range(n))

class Pol:
    """a generated policy + what the generator knows about it"""
    def __init__(self, **kw):
        self.__dict__.update(kw)
    def line(self, pid, **over):
        d = dict(ssrc_type=self.ssrc_type, ssrc=self.ssrc, rtp=self.rtp, rtcp=self.rtcp, keys=self.keys,
                 use_mki=self.use_mki, mki_size=self.mki_size, window=self.window, allow_repeat=self.allow_repeat,
                 cryptex=self.cryptex, enc_xtn=self.enc_xtn, use_key_field=self.use_key_field)
        d.update(over)
        return policy_line(pid, **d)
    @property
    def tag(self):
        return self.rtp[4]
    @property
    def rtcp_tag(self):
        return self.rtcp[4]
    def trailer(self, rtp=True):
        m = self.mki_size if self.use_mki else 0
        return m + (self.rtp[4] if rtp else self.rtcp[4] + 4)


def rand_crypto(rng, valid=True, for_rtcp=False):
    r = rng.random()
    if r < 0.55:
        cipher, keylen = ICM128, 30
    elif r < 0.75:
        cipher, keylen = ICM256, 46
    else:
        cipher, keylen = NULL_CIPHER, rng.choice([30, 30, 46, 16, 0])
    r = rng.random()
    if r < 0.8:
        auth, akl, tag = HMAC, rng.choice([20, 20, 20, 16, 4, 0]), rng.choice([10, 10, 4, 16, 12, 1, 0])
    else:
        auth, akl, tag = NULL_AUTH, 0, rng.choice([0, 0, 4, 10, 16])
    serv = rng.choice([3, 3, 3, 1, 2, 0])
    if for_rtcp and rng.random() < 0.7:
        serv = rng.choice([3, 3, 2])
    if not valid:
        w = rng.randrange(6)
        if w == 0: keylen = rng.choice([29, 31, 45, 47, 14, 38])
        elif w == 1: cipher = rng.choice([2, 3, 4, 6, 7, 9])
        elif w == 2: auth = rng.choice([1, 2, 4])
        elif w == 3: akl = rng.choice([21, 64])
        elif w == 4: tag = rng.choice([21, 32])
        else: keylen = rng.choice([29, 31])
    return (cipher, keylen, auth, akl, tag, serv)


def rand_policy(rng, ssrc=None, ssrc_type=SSRC_SPECIFIC, valid=True, mki=None, safe_tags=True, allow_xtn=True, allow_cryptex=True):
    rtp = rand_crypto(rng, valid or rng.random() < 0.5)
    rtcp = rand_crypto(rng, True, for_rtcp=True)
    if AEAD:
        bits = rng.choice([128, 128, 256])
        rtp = gcm_cp(bits, rng.choice([16, 16, 8]), rtp[5])
        # unencrypted SRTCP (RFC 7714 9.3: whole packet as AAD, bare tag) gets as much weight as encrypted SRTCP
        mixed = AEAD_MIX if AEAD_MIX is not None else rng.random() < 0.25
        rtcp = gcm_cp((384 - bits) if mixed else bits, rng.choice([16, 16, 8]), rng.choice([3, 3, 2, 2, 0, 1]))   # sometimes GCM-128 next to GCM-256
    if safe_tags:
        # tag lengths above SRTP_MAX_TAG_LEN and key lengths above 256 are exercised by C10 only
        rtp = rtp[:4] + (min(rtp[4], 16),) + rtp[5:]
        rtcp = rtcp[:4] + (min(rtcp[4], 16),) + rtcp[5:]
    klen = max(rtp[1], rtcp[1], 30 if NULL_CIPHER in (rtp[0], rtcp[0]) else 0,
               46 if ICM256 in (rtp[0], rtcp[0]) else 0)
    if AEAD:
        klen = max(rtp[1], rtcp[1])
    use_mki = rng.random() < 0.3 if mki is None else mki
    if use_mki:
        msz = rng.choice([1, 2, 4, 4, 8, 16, 128])
        nk = rng.choice([1, 2, 2, 3, 16])
        keys = []
        for i in range(nk):
            keys.append((rand_key(rng, klen), bytes([(i * 37 + j) & 0xff for j in range(msz)])))
        use_key_field = False
    else:
        msz = 0
        if rng.random() < 0.7:
            keys = [(rand_key(rng, klen), b"")]; use_key_field = True
        else:
            keys = [(rand_key(rng, klen), b"") for _ in range(rng.choice([1, 1, 2]))]; use_key_field = False
    window = rng.choice([0, 64, 65, 128, 128, 1024, 32767])
    if not valid and rng.random() < 0.3:
        window = rng.choice([1, 10, 63, 32768, 100000])
    enc_xtn = b""
    cryptex = False
    if allow_xtn and rng.random() < 0.25:
        enc_xtn = bytes(rng.sample(range(1, 15), rng.choice([1, 2, 3])))
    elif allow_cryptex and rng.random() < 0.25:
        cryptex = True
    return Pol(ssrc_type=ssrc_type, ssrc=ssrc if ssrc is not None else rng.randrange(1, 1 << 32), rtp=rtp, rtcp=rtcp,
               keys=keys, use_mki=use_mki, mki_size=msz, window=window, allow_repeat=rng.random() < 0.15,
               cryptex=cryptex, enc_xtn=enc_xtn, use_key_field=use_key_field, valid=valid)


def strat_policy(rng, k, **kw):
    """rand_policy, stratified by k: every run of ten consecutive k visits each class of policy whose buffer / tag / service
    handling has a code path of its own in srtp.c, whatever the seed (a purely random dozen left some of them out for some
    seeds: seeded changes C12-a/b, C16-a/b slipped through a regression for that reason).  Returns (policy, ext_p) where ext_p
    is the share of RTP packets that should carry a header extension."""
    klass = k % 10
    if klass == 7 and "mki" not in kw:
        kw["mki"] = True
    p = rand_policy(rng, **kw)
    if p.rtp[0] in (GCM128, GCM256):
        # AES-GCM: all four combinations of the 16- and 8-octet tag for the SRTP and SRTCP halves, whatever the seed
        p.rtp = p.rtp[:4] + ((16, 8)[k % 2],) + p.rtp[5:]
        p.rtcp = p.rtcp[:4] + ((16, 8)[(k // 2) % 2],) + p.rtcp[5:]
    if klass == 7 and p.use_mki and (k // 10) % 2 == 0:
        p.keys = p.keys[:1]            # an MKI with exactly one master key: the MKI octets still select (and must match) it
    aead = p.rtp[0] in (GCM128, GCM256)
    ext_p = 0.5
    if klass == 1:
        p.rtp = p.rtp[:5] + (0,); p.rtcp = p.rtcp[:5] + ((0, 2)[(k // 10) % 2],)     # no service at all: pure copies (SRTCP: none / auth only, alternating)
    elif klass == 2:
        p.rtp = p.rtp[:5] + (2,); p.rtcp = p.rtcp[:5] + (2,)                         # authentication only
    elif klass == 3 and not aead:
        p.rtp = p.rtp[:3] + (20, 10, rng.choice([1, 0]))                             # tag length configured, auth service not requested
    elif klass == 4:
        p.cryptex, p.enc_xtn, ext_p = True, b"", 0.9                                   # cryptex alone
    elif klass == 5:
        p.cryptex, ext_p = False, 0.9                                                  # RFC 6904 alone
        p.enc_xtn = p.enc_xtn or bytes(rng.sample(range(1, 15), 2))
    elif klass == 6 and not aead and p.rtp[0] != NULL_CIPHER:
        # NULL auth with a non-zero tag length and the auth service on: the tag is the keystream prefix
        p.rtp = p.rtp[:2] + (NULL_AUTH, 0, rng.choice([4, 10, 16]), 3)
        if p.rtcp[0] != NULL_CIPHER:
            p.rtcp = p.rtcp[:2] + (NULL_AUTH, 0, rng.choice([4, 10, 16]), 3)
    elif klass == 8 and not aead:
        # a real cipher without the confidentiality service (UNENCRYPTED_SRTCP / auth-only SRTP with AES keys)
        if p.rtp[0] == NULL_CIPHER: p.rtp = (ICM128, 30) + p.rtp[2:]
        if p.rtcp[0] == NULL_CIPHER: p.rtcp = (ICM128, 30) + p.rtcp[2:]
        p.rtp = p.rtp[:2] + (HMAC, 20, 10, rng.choice([2, 3])); p.rtcp = p.rtcp[:2] + (HMAC, 20, 10, 2)
        klen = max(p.rtp[1], p.rtcp[1])
        p.keys = [((k0 + rand_key(rng, 46))[:max(klen, len(k0))], m) for (k0, m) in p.keys]
    return p, ext_p


def bswap32(x):
    return int.from_bytes((x & 0xffffffff).to_bytes(4, "big"), "little")


def ssrc_pool(rng, n):
    """n distinct SSRCs with structure: byte-reversed pairs (the stream list keeps SSRCs in network byte order, the API takes
    host order), byte palindromes, values differing in one byte, 1 and 0xfffffffe"""
    base = [rng.randrange(2, 1 << 32) for _ in range(max(n // 2, 1))]
    pool = list(base)
    pool += [bswap32(x) for x in base[:max(n // 3, 1)]]
    pool += [0x12121212, 0xabcddcba, 1, 0x01000000, 0xfffffffe, base[0] ^ 0xff, base[0] ^ 0xff000000]
    out = []
    for x in pool:
        if x not in out and 1 <= x < (1 << 32):
            out.append(x)
    rng.shuffle(out)
    return out[:max(n, 4)]


def default_policy(rng, ssrc, **kw):
    d = dict(ssrc_type=SSRC_SPECIFIC, ssrc=ssrc, rtp=cp(), rtcp=cp(), keys=[(rand_key(rng, 30), b"")], use_mki=False,
             mki_size=0, window=128, allow_repeat=False, cryptex=False, enc_xtn=b"", use_key_field=True, valid=True)
    if AEAD and "rtp" not in kw and "rtcp" not in kw:
        bits = rng.choice([128, 128, 256])
        if "keys" in kw and min(len(k) for k, _ in kw["keys"]) < 44:
            bits = 128                      # the caller's key buffers are 30 octets: enough for GCM-128 (28) only
        d["rtp"] = gcm_cp(bits, rng.choice([16, 16, 8])); d["rtcp"] = gcm_cp(bits, rng.choice([16, 16, 8]))
        if "keys" not in kw:
            d["keys"] = [(rand_key(rng, 44), b"")]
    d.update(kw)
    return Pol(**d)


def ragged_ext(rng, ids=None, words=None):
    """extension blocks whose element stream does NOT end in clean padding: a lone (header) octet in the last
    position, an element that ends exactly at / one short of / one beyond the block, id 15, zero-length two-byte
    elements, leading padding.  Half one-byte form, half two-byte form."""
    ids = ids or list(range(1, 15))
    n = 4 * (words if words is not None else rng.choice([1, 1, 2, 3]))
    two = rng.random() < 0.5
    d = bytearray()
    while len(d) < n:
        left = n - len(d)
        r = rng.random()
        if r < 0.15:
            d.append(0)                                        # padding
        elif two:
            ln = rng.choice([0, 1, 2, left - 2, left - 1, left, 3]) if left >= 2 else 0
            d += bytes([rng.choice(ids + [0x80])] + ([max(ln, 0) & 0xff] if left >= 2 else [])) + rand_key(rng, max(min(ln, left - 2), 0))
        else:
            ln = rng.choice([1, 2, left - 1, left, left + 1, 16])
            ln = min(max(ln, 1), 16)
            eid = rng.choice(ids + [15])
            d += bytes([(eid << 4) | (ln - 1)]) + rand_key(rng, max(min(ln, left - 1), 0))
    d = bytes(d[:n])
    if rng.random() < 0.5:
        d = d[:-1] + bytes([rng.choice([1, 5, 0x10, 0x12, 0xf0, 0xff, rng.choice(ids)])])   # lone non-zero last octet
    return ((0x1000 | rng.choice([0, 0, 5])) if two else 0xBEDE, d)


def rand_ext(rng, ids=None):
    ids = ids or list(range(1, 15))
    r = rng.random()
    if r < 0.12:
        return ragged_ext(rng, ids)
    r = rng.random()
    if r < 0.5:
        elems = []
        for _ in range(rng.choice([0, 1, 2, 3])):
            elems.append((rng.choice(ids), rand_key(rng, rng.choice([1, 2, 3, 4, 16]))))
        return one_byte_ext(elems, pad_lead=0, pad_between=rng.choice([0, 0, 0, 1, 2]))
    elif r < 0.85:
        elems = []
        for _ in range(rng.choice([0, 1, 2, 3])):
            elems.append((rng.choice(ids + [0x80, 0xff]), rand_key(rng, rng.choice([0, 1, 2, 5, 31]))))
        return two_byte_ext(elems, appbits=rng.choice([0, 0, 5]), pad_between=rng.choice([0, 0, 1]))
    elif r < 0.93:
        return (0xBEDE, b"")
    else:
        return (rng.choice([0xABCD, 0x1234, 0xC0DE, 0xC2DE, 0x1010]), rand_key(rng, 4 * rng.choice([0, 1, 2])))


def rand_rtp(rng, ssrc, seq, ext_ok=True, ids=None, big=False, ext_p=0.5):
    cc = rng.choice([0, 0, 0, 1, 2, 15])
    ext = rand_ext(rng, ids) if ext_ok and rng.random() < ext_p else None
    n = rng.choice([0, 1, 15, 16, 17, 31, 32, 33, 100, 160])
    if big:
        n = rng.choice([1000, 1400, 4095, 4096, 4097])
    return rtp_packet(ssrc, seq, payload=rand_key(rng, n), pt=rng.randrange(128), ts=rng.randrange(1 << 32),
                      marker=rng.randrange(2), cc=cc, ext=ext)


def rand_rtcp(rng, ssrc):
    n = rng.choice([0, 4, 16, 20, 44, 100])
    return rtcp_packet(ssrc, rand_key(rng, n), pt=rng.choice([200, 201, 202]))


def replay_history(rng, tier, rtcp=False, n_ssrc=None, steps=None, common_roc=None, damaged=0.0, rekey=0.0, wrap_prologue=False):
    """sender session 1 / receiver session 2; adversarial delivery order.  Annotations:
       # S <ssrc> <idx>            after a protect (true index of the packet just made)
       # D <ssrc> <idx> <line>     after an unprotect delivering the packet made at <line>
       rekey: probability per step of srtp_update on both sessions with the unchanged policies (index state is kept by a
       re-key; packets already delivered are not delivered again afterwards: known finding update-clears-rtp-replay-window)"""
    wildcard = rng.random() < 0.4 and common_roc is None and not rekey
    n_ssrc = n_ssrc or rng.choice([1, 1, 2, 3])
    ssrcs = [rng.randrange(2, 1 << 32) for _ in range(n_ssrc)]
    ws = rng.choice([0, 64, 65, 96, 127, 128, 1024, 32767])
    L = []
    if wildcard:
        ps = default_policy(rng, 0, ssrc_type=SSRC_ANY_OUT, window=ws)
        pr = default_policy(rng, 0, ssrc_type=SSRC_ANY_IN, window=ws, keys=ps.keys, rtp=ps.rtp, rtcp=ps.rtcp)
        L += [ps.line(1), pr.line(2), "create 1 1", "create 2 2"]
    else:
        pols = [default_policy(rng, s, window=ws) for s in ssrcs]
        for j, p in enumerate(pols):
            L.append(p.line(1 + j))
        ids = " ".join(H(1 + j) for j in range(len(pols)))
        L += [f"create 1 {ids}", f"create 2 {ids}"]
    if common_roc is not None:
        # sender and receiver are told the same starting ROC (srtp_stream_set_roc on both sides) before any traffic
        for s in ssrcs:
            if common_roc == 0 or rng.random() < 0.3:
                # a first request that no packet takes up; the second call replaces it (also when it names the current ROC)
                L += [f"setroc 1 {H(s)} {H(common_roc + 3)}", f"setroc 2 {H(s)} {H(common_roc + 3)}"]
            L += [f"setroc 1 {H(s)} {H(common_roc)}", f"setroc 2 {H(s)} {H(common_roc)}", f"# C {s:x} {common_roc:x}"]
    eff_ws = 128 if ws == 0 else ws
    hi = {s: None for s in ssrcs}           # sender's highest index
    sgaps = {s: [] for s in ssrcs}          # indices the sender skipped (candidates for a late send)
    pool = {s: [] for s in ssrcs}           # (line, idx)
    start = {s: rng.choice([0, 1, 100, 32767, 32768, 65000, 65535]) for s in ssrcs}
    steps = steps or (80 if tier == "quick" else 600)
    if rekey and common_roc is not None and rng.random() < 0.5:
        start = {s: rng.choice([40000, 65000, 65535]) for s in ssrcs}      # first packet in the far half of the sequence space
    if wrap_prologue and not rtcp and not wildcard:
        # the sender crosses the sequence wrap and is then handed the skipped number from before it: 65533, 65535, 0, 65534
        s0 = ssrcs[0]; base0 = (common_roc or 0) << 16
        for idx in (base0 + 65533, base0 + 65535, base0 + 65536, base0 + 65534):
            pkt = rtp_packet(s0, idx & 0xffff, payload=idx.to_bytes(6, "big"))
            L.append(pkt_op("protect", 1, pkt, extra=40))
            pool[s0].append((len(L), idx)); L.append(f"# S {s0:x} {idx:x}")
        hi[s0] = base0 + 65536
    early_rekey = bool(rekey) and common_roc is not None
    delivered = set()
    delivered_ssrcs = set()
    for step_no in range(steps):
        s = rng.choice(ssrcs)
        if rekey and not wildcard and (rng.random() < rekey or (early_rekey and not delivered)) and all(pool[x] for x in ssrcs):
            early_rekey = False        # (with an imposed ROC: one re-key BEFORE the receiver has seen anything, the ROC still pending there)
            L += [f"update 1 {ids}", f"update 2 {ids}", "# U"]
            for x in ssrcs:
                pool[x] = [e for e in pool[x] if e[0] not in delivered]
            continue
        if rtcp:
            if not pool[s] or rng.random() < 0.45 or step_no == 15:
                if pool[s] and (rng.random() < 0.08 or step_no == 15):      # every history has at least one far jump (step 15)
                    # far-future jump of the sender's counter
                    j = hi[s] + rng.choice([200, 1000, 1 << 20, 1 << 27, (1 << 30) + 9])      # the index is a 31-bit number: every bit of it counts
                    if j < 0x7ffffff0:
                        L.append(f"poke_rtcp 1 0 {H(s)} {H(j)}"); hi[s] = j
                rp = rtcp_packet(s, rand_key(rng, 8))
                L.append(pkt_op("protect_rtcp", 1, rp, extra=40))
                hi[s] = (hi[s] or 0) + 1
                pool[s].append((len(L), hi[s])); L.append(f"# S {s:x} {hi[s]:x}")
            else:
                line, idx = rng.choice(pool[s][-6:] if rng.random() < 0.6 else pool[s])
                L.append(pkt_op("unprotect_rtcp", 2, f"@{line:x}", cap=100)); L.append(f"# D {s:x} {idx:x} {line:x}")
        else:
            if not pool[s] or rng.random() < 0.45:
                late = [g for g in sgaps[s] if hi[s] is not None and 0 < hi[s] - g < min(eff_ws, 60)]
                if late and not wildcard and rng.random() < 0.2:
                    # the SENDER is handed a sequence number it skipped a moment ago (reordering before srtp_protect; the index may lie
                    # before a sequence wrap the sender has already passed)
                    idx = late[-1]; sgaps[s].remove(idx)
                elif hi[s] is None:
                    idx = start[s] + ((common_roc or 0) << 16)
                    hi[s] = idx
                else:
                    # the sender's own estimator follows a jump only below 2^15 (the property's premise on both sides)
                    step = min(rng.choice([1, 1, 1, 2, 3, eff_ws - 1, eff_ws, eff_ws + 1, 5000, 30000]), 32767)
                    if step in (2, 3):
                        sgaps[s] += [hi[s] + d for d in range(1, step)]; sgaps[s] = sgaps[s][-8:]
                    idx = hi[s] + step
                    hi[s] = idx
                pkt = rtp_packet(s, idx & 0xffff, payload=idx.to_bytes(6, "big"))
                L.append(pkt_op("protect", 1, pkt, extra=40))
                pool[s].append((len(L), idx)); L.append(f"# S {s:x} {idx:x}")
            else:
                line, idx = rng.choice(pool[s][-8:] if rng.random() < 0.7 else pool[s])
                if rng.random() < damaged or (damaged and common_roc is not None and s not in delivered_ssrcs):
                    # (with an imposed common ROC the very first delivery of each SSRC is always preceded by a damaged copy: the
                    # imposed ROC must survive a refused first packet)
                    # a damaged copy arrives first (rejected; must leave the stream's index state alone)
                    L.append(pkt_op("unprotect", 2, f"@{line:x}~{rng.randrange(96, 8 * 22):x}", cap=100)); L.append("# X")
                L.append(pkt_op("unprotect", 2, f"@{line:x}", cap=100)); L.append(f"# D {s:x} {idx:x} {line:x}")
                delivered.add(line); delivered_ssrcs.add(s)
                if rng.random() < 0.2:
                    L.append(f"getroc 2 {H(s)}"); L.append(f"# R {s:x}")
    L += ["dealloc 1", "dealloc 2"]
    return "\n".join(L) + "\n", ws


def replay_monitor(script, c, rtcp=False):
    from lib.gen import RtpRef, RtcpRef
    hits = []
    sl = script.split("\n")
    out = {int(l.split()[0]): l.split() for l in c if l.strip()}
    ws = None
    for l in sl:
        if l.startswith("policy"):
            ws = int(l.split()[20], 16); break
    refs = {}
    base = {}
    shi = {}
    for i, l in enumerate(sl, 1):
        t = l.split()
        if len(t) < 2 or t[0] != "#":
            continue
        if t[1] == "C":
            base[t[2]] = int(t[3], 16) << 16
        elif t[1] == "S" and not rtcp:
            # the sender derives the index the generator intended: a sequence number less than 2^15 ahead of the highest one it
            # has processed is protected (status ok) — also right after a re-key, which keeps the index
            o = out.get(i - 1, [])
            idx = int(t[3], 16)
            prev = shi.get(t[2])
            if prev is not None and 0 < idx - prev < 32768 and len(o) > 2 and int(o[2], 16) in (9, 10):
                hits.append({"what": "sender refuses an in-order packet as a replay: its index estimate has left the ROC it was following",
                             "signature": "sender-index-out-of-sync", "detail": f"line {i-1}: index {idx:x} after {prev:x}: status {o[2]}"}); return hits
            if len(o) > 2 and int(o[2], 16) == 0:
                shi[t[2]] = max(idx, prev or 0)
        elif t[1] == "D":
            s, idx, line = t[2], int(t[3], 16), int(t[4], 16)
            src = out.get(line, [])
            o = out.get(i - 1, [])
            if len(src) < 3 or int(src[2], 16) != 0 or len(o) < 3:
                continue
            ref = refs.setdefault(s, RtcpRef() if rtcp else RtpRef(128 if ws == 0 else ws))
            ok = int(o[2], 16) == 0
            if ok and idx in ref.seen:
                # an authentic packet authenticates only under its own index: a second acceptance is a second acceptance of that index
                hits.append({"what": f"{'SRTCP' if rtcp else 'SRTP'} receiver accepted the same packet index twice",
                             "signature": f"{'srtcp' if rtcp else 'srtp'}-api-accepted-twice", "detail": f"line {i-1}: index {idx:x}"}); return hits
            b0 = base.get(s, 0)
            if not rtcp and ((ref.seen and abs(idx - ref.hi) >= 32768) or (not ref.seen and not (b0 <= idx < b0 + 65536))):
                # beyond what the index estimator can follow: outside the property's premise;
                # keep the reference in step with what the receiver did
                if ok and idx not in ref.seen:
                    ref.add(idx)
                continue
            want = ref.verdict(idx)
            pre = "SRTCP" if rtcp else "SRTP"
            if ok and idx in ref.seen:
                hits.append({"what": f"{pre} receiver accepted the same packet index twice", "signature": f"{pre.lower()}-api-accepted-twice",
                             "detail": f"line {i-1}: index {idx:x}"}); return hits
            if ok and want is False:
                hits.append({"what": f"{pre} receiver accepted a packet at or beyond the replay window behind the highest accepted index",
                             "signature": f"{pre.lower()}-api-old-accepted", "detail": f"line {i-1}: index {idx:x} highest {ref.hi:x}"}); return hits
            if not ok and want is True:
                hits.append({"what": f"{pre} receiver rejected an authentic unseen packet inside the window",
                             "signature": f"{pre.lower()}-api-fresh-rejected", "detail": f"line {i-1}: index {idx:x} highest {ref.hi} status {o[2]}"}); return hits
            if ok:
                ref.add(idx)
                # payload decrypts to what was sent (C06: same index on both sides)
                sent = sl[line - 1].split("|")[1].strip()
                if len(o) > 4 and o[4] != sent:
                    hits.append({"what": "accepted packet does not decrypt to the original (index out of sync)", "signature": f"{pre.lower()}-api-wrong-plaintext",
                                 "detail": f"line {i-1}"}); return hits
        elif t[1] == "R":
            o = out.get(i - 1, [])
            ref = refs.get(t[2])
            if ref and ref.seen and len(o) > 3 and int(o[2], 16) == 0 and int(o[3], 16) != ref.hi >> 16:
                hits.append({"what": "receiver's rollover counter differs from the ROC of the highest accepted packet", "signature": "roc-out-of-sync",
                             "detail": f"line {i-1}: roc {o[3]} expected {ref.hi >> 16:x}"}); return hits
    return hits


def resync_redeliver(rng, tier):
    """sender 1 / receiver 2, some traffic, then srtp_stream_set_roc on both sides to a later ROC (the
    index-advance path of srtp_unprotect), then every packet is delivered more than once, interleaved with
    newer packets.  Judged by redeliver_monitor: no protect output is accepted twice."""
    ssrc = rng.randrange(2, 1 << 32)
    p = default_policy(rng, ssrc, window=rng.choice([0, 64, 128, 1024]))
    L = [p.line(1), "create 1 1", "create 2 1"]
    idx = rng.choice([0, 1, 100, 40000, 65530])
    pool = []
    def send():
        pkt = rtp_packet(ssrc, idx & 0xffff, payload=idx.to_bytes(6, "big"))
        L.append(pkt_op("protect", 1, pkt, extra=40)); pool.append(len(L))
    def deliver(line):
        L.append(pkt_op("unprotect", 2, f"@{line:x}", cap=100)); L.append(f"# D {ssrc:x} 0 {line:x}")
    for rounds in range(2 if tier == "quick" else 6):
        for _ in range(rng.choice([0, 1, 3, 8])):
            send(); deliver(pool[-1])
            if rng.random() < 0.5:
                deliver(rng.choice(pool[-3:]))
            idx += rng.choice([1, 1, 2, 7])
        r = (idx >> 16) + rng.choice([1, 1, 2, 3, 100])
        L.append(f"setroc 1 {H(ssrc)} {H(r)}"); L.append(f"setroc 2 {H(ssrc)} {H(r)}")
        idx = (r << 16) | (idx & 0xffff)
        first = len(pool)
        for _ in range(rng.choice([1, 2, 4])):
            send(); deliver(pool[-1]); 
            for _ in range(rng.choice([1, 1, 2])):
                deliver(rng.choice(pool[first:]))
            idx += rng.choice([1, 1, 2])
        for ln in pool[first:]:
            deliver(ln)
    L += ["dealloc 1", "dealloc 2"]
    return "\n".join(L) + "\n"


def redeliver_monitor(script, c):
    """premise-free: one protect output (an authentic packet, which authenticates only under its own index)
    is accepted at most once by the receiving session"""
    sl = script.split("\n")
    out = {int(l.split()[0]): l.split() for l in c if l.strip()}
    acc = {}
    for i, l in enumerate(sl, 1):
        t = l.split()
        if len(t) >= 5 and t[0] == "#" and t[1] == "D":
            line = int(t[4], 16)
            src, o = out.get(line, []), out.get(i - 1, [])
            if len(src) < 3 or int(src[2], 16) != 0 or len(o) < 3:
                continue
            if int(o[2], 16) == 0:
                if line in acc:
                    return [{"what": "SRTP receiver accepted the same authentic packet twice", "signature": "srtp-api-accepted-twice",
                             "detail": f"packet made at line {line} accepted at lines {acc[line]} and {i-1}"}]
                acc[line] = i - 1
    return []
