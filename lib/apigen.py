"""apigen.py — structured generators for session-level scripts (policies, packets, scenarios)."""
from lib.gen import *

TAGS = [0, 4, 10, 10, 10, 16]

def rand_key(rng, n):
    return bytes(rng.randrange(256) for _ in range(n))

class Pol:
    """a generated policy + what the generator knows about it"""
    def __init__(self, **kw):
        self.__dict__.update(kw)
    def line(self, pid, **over):
        d = dict(ssrc_type=self.ssrc_type, ssrc=self.ssrc, rtp=self.rtp, rtcp=self.rtcp, keys=self.keys,
                 use_mki=self.use_mki, mki_size=self.mki_size, window=self.window, allow_repeat=self.allow_repeat,
                 cryptex=self.cryptex, enc_xtn=self.enc_xtn, use_key_field=self.use_key_field)
        d.update(over)
        return policy_line(pid, **d)
    @property
    def tag(self):
        return self.rtp[4]
    @property
    def rtcp_tag(self):
        return self.rtcp[4]
    def trailer(self, rtp=True):
        m = self.mki_size if self.use_mki else 0
        return m + (self.rtp[4] if rtp else self.rtcp[4] + 4)


def rand_crypto(rng, valid=True, for_rtcp=False):
    r = rng.random()
    if r < 0.55:
        cipher, keylen = ICM128, 30
    elif r < 0.75:
        cipher, keylen = ICM256, 46
    else:
        cipher, keylen = NULL_CIPHER, rng.choice([30, 30, 46, 16, 0])
    r = rng.random()
    if r < 0.8:
        auth, akl, tag = HMAC, rng.choice([20, 20, 20, 16, 4, 0]), rng.choice([10, 10, 4, 16, 12, 1, 0])
    else:
        auth, akl, tag = NULL_AUTH, 0, rng.choice([0, 0, 4, 10, 16])
    serv = rng.choice([3, 3, 3, 1, 2, 0])
    if for_rtcp and rng.random() < 0.7:
        serv = rng.choice([3, 3, 2])
    if not valid:
        w = rng.randrange(6)
        if w == 0: keylen = rng.choice([29, 31, 45, 47, 14, 38])
        elif w == 1: cipher = rng.choice([2, 3, 4, 6, 7, 9])
        elif w == 2: auth = rng.choice([1, 2, 4])
        elif w == 3: akl = rng.choice([21, 64])
        elif w == 4: tag = rng.choice([21, 32])
        else: keylen = rng.choice([29, 31])
    return (cipher, keylen, auth, akl, tag, serv)


def rand_policy(rng, ssrc=None, ssrc_type=SSRC_SPECIFIC, valid=True, mki=None, safe_tags=True, allow_xtn=True, allow_cryptex=True):
    rtp = rand_crypto(rng, valid or rng.random() < 0.5)
    rtcp = rand_crypto(rng, True, for_rtcp=True)
    if safe_tags:
        # tag lengths above SRTP_MAX_TAG_LEN and key lengths above 256 are exercised by C10 only
        rtp = rtp[:4] + (min(rtp[4], 16),) + rtp[5:]
        rtcp = rtcp[:4] + (min(rtcp[4], 16),) + rtcp[5:]
    klen = max(rtp[1], rtcp[1], 30 if NULL_CIPHER in (rtp[0], rtcp[0]) else 0,
               46 if ICM256 in (rtp[0], rtcp[0]) else 0)
    use_mki = rng.random() < 0.3 if mki is None else mki
    if use_mki:
        msz = rng.choice([1, 2, 4, 4, 8, 16, 128])
        nk = rng.choice([1, 2, 2, 3, 16])
        keys = []
        for i in range(nk):
            keys.append((rand_key(rng, klen), bytes([(i * 37 + j) & 0xff for j in range(msz)])))
        use_key_field = False
    else:
        msz = 0
        if rng.random() < 0.7:
            keys = [(rand_key(rng, klen), b"")]; use_key_field = True
        else:
            keys = [(rand_key(rng, klen), b"") for _ in range(rng.choice([1, 1, 2]))]; use_key_field = False
    window = rng.choice([0, 64, 65, 128, 128, 1024, 32767])
    if not valid and rng.random() < 0.3:
        window = rng.choice([1, 10, 63, 32768, 100000])
    enc_xtn = b""
    cryptex = False
    if allow_xtn and rng.random() < 0.25:
        enc_xtn = bytes(rng.sample(range(1, 15), rng.choice([1, 2, 3])))
    elif allow_cryptex and rng.random() < 0.25:
        cryptex = True
    return Pol(ssrc_type=ssrc_type, ssrc=ssrc if ssrc is not None else rng.randrange(1, 1 << 32), rtp=rtp, rtcp=rtcp,
               keys=keys, use_mki=use_mki, mki_size=msz, window=window, allow_repeat=rng.random() < 0.15,
               cryptex=cryptex, enc_xtn=enc_xtn, use_key_field=use_key_field, valid=valid)


def default_policy(rng, ssrc, **kw):
    d = dict(ssrc_type=SSRC_SPECIFIC, ssrc=ssrc, rtp=cp(), rtcp=cp(), keys=[(rand_key(rng, 30), b"")], use_mki=False,
             mki_size=0, window=128, allow_repeat=False, cryptex=False, enc_xtn=b"", use_key_field=True, valid=True)
    d.update(kw)
    return Pol(**d)


def rand_ext(rng, ids=None):
    ids = ids or list(range(1, 15))
    r = rng.random()
    if r < 0.5:
        elems = []
        for _ in range(rng.choice([0, 1, 2, 3])):
            elems.append((rng.choice(ids), rand_key(rng, rng.choice([1, 2, 3, 4, 16]))))
        return one_byte_ext(elems, pad_lead=0, pad_between=rng.choice([0, 0, 0, 1, 2]))
    elif r < 0.85:
        elems = []
        for _ in range(rng.choice([0, 1, 2, 3])):
            elems.append((rng.choice(ids + [0x80, 0xff]), rand_key(rng, rng.choice([0, 1, 2, 5, 31]))))
        return two_byte_ext(elems, appbits=rng.choice([0, 0, 5]), pad_between=rng.choice([0, 0, 1]))
    elif r < 0.93:
        return (0xBEDE, b"")
    else:
        return (rng.choice([0xABCD, 0x1234, 0xC0DE, 0xC2DE, 0x1010]), rand_key(rng, 4 * rng.choice([0, 1, 2])))


def rand_rtp(rng, ssrc, seq, ext_ok=True, ids=None, big=False):
    cc = rng.choice([0, 0, 0, 1, 2, 15])
    ext = rand_ext(rng, ids) if ext_ok and rng.random() < 0.5 else None
    n = rng.choice([0, 1, 15, 16, 17, 31, 32, 33, 100, 160])
    if big:
        n = rng.choice([1000, 1400, 4095, 4096, 4097])
    return rtp_packet(ssrc, seq, payload=rand_key(rng, n), pt=rng.randrange(128), ts=rng.randrange(1 << 32),
                      marker=rng.randrange(2), cc=cc, ext=ext)


def rand_rtcp(rng, ssrc):
    n = rng.choice([0, 4, 16, 20, 44, 100])
    return rtcp_packet(ssrc, rand_key(rng, n), pt=rng.choice([200, 201, 202]))
