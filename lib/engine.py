"""engine.py — the check protocol of DESIGN.md section 5, shared by all properties.

  bin/check <id> <quick|thorough>

 1. build: libsrtp from /repo's working tree (sanitizers), cdrv, Constants.v /
    GlobalsGen.v regenerated, Coq development compiled (make -k), model
    extracted and compiled.
 2. proof step: Properties_<id>.vo and its whole cone compiled; gate scan.
 3. correspondence step: corpus first, then generated scripts, C vs model.
 4. monitors: property predicates over the implementation's own transcript.
 5. verdict, replay files, evidence.
"""
import importlib, json, os, re, sys, time, traceback
from . import vlib
from .vlib import VERIF

REPLAY_DIR = os.path.join(VERIF, "replay")
KNOWN = os.path.join(VERIF, "known_findings.json")


class Family:
    """A family of scripts: name, list of (script_name, text), optional monitor
    (script_text, c_lines) -> list of hit dicts {what, signature, detail}."""
    def __init__(self, name, scripts, monitor=None, model=True, nontrivial=None, config="internal"):
        self.name, self.scripts, self.monitor, self.model = name, scripts, monitor, model
        self.nontrivial = nontrivial
        self.config = config


def load_known():
    try:
        return json.load(open(KNOWN))
    except OSError:
        return {"findings": [], "fixed": []}


def write_replay(pid, n, kind, payload):
    os.makedirs(REPLAY_DIR, exist_ok=True)
    p = os.path.join(REPLAY_DIR, f"{pid}-{kind}-{n}.txt")
    with open(p, "w") as f:
        f.write(payload)
    return p


def main(argv):
    pid, tier = argv[1], (argv[2] if len(argv) > 2 else os.environ.get("VERIF_TIER", "quick"))
    seed = int(os.environ.get("VERIF_SEED", "1"))
    t0 = time.time()
    sys.path.insert(0, os.path.join(VERIF, "lib"))
    P = importlib.import_module("props." + pid)
    violations = []      # (line, replay)
    known_lines = []
    notes = []
    ev = {"property_id": pid, "tier": tier, "seed": seed, "level": "proof", "coverage": {}, "assumptions": [],
          "wall_s": 0.0, "violations": 0}

    def finish(code):
        ev["wall_s"] = round(time.time() - t0, 2)
        ev["violations"] = len(violations)
        os.makedirs(os.path.join(VERIF, "evidence"), exist_ok=True)
        with open(os.path.join(VERIF, "evidence", pid + ".json"), "w") as f:
            json.dump(ev, f, indent=1)
        for l in known_lines:
            print(l)
        for l, _ in violations:
            print(l)
        for n in notes:
            print("note:", n)
        print(f"{pid} {tier}: {'FAIL' if code else 'ok'} in {ev['wall_s']}s")
        sys.exit(code)

    # ---- 1. build
    try:
        cdir = vlib.build_c("internal")
        qdir, status = vlib.build_coq(cdir)
    except vlib.BuildError as e:
        rp = write_replay(pid, 0, "build", "The build of the tie failed; no theorem or correspondence could be checked.\n\n" + str(e))
        violations.append((f"VIOLATION property={pid} replay={rp} build of model/implementation failed no-failing-input-found", rp))
        ev["coverage"] = {"obligations": 1, "discharged": 0, "checker_cmd": "make (failed)", "trusted_base": [],
                          "explanation": str(e)[:500]}
        finish(1)

    # the generated-kernel tie (KernelGen.v from the C text + KernelGenProofs.v): an additional tie; when it does not check
    # the hand-written model is still tied by the correspondence runs, so this is reported, not counted as a violation
    try:
        kfail = open(os.path.join(cdir, "KernelGen.v.failed")).read().strip()
    except OSError:
        kfail = "KernelGen.v was not generated"
    try:
        kdir, kstatus = vlib.build_kernels(cdir, qdir)
    except Exception as e:
        kdir, kstatus = None, {}
        kfail = kfail or ("kernel build failed: " + str(e)[:120])
    kproofs = bool(kstatus.get("KernelGenProofs.v")) and bool(kstatus.get("KernelGenProofs2.v"))
    ktie = {"generated_from": "clang AST of key.c, rdbx.c, rdb.c, datatypes.c, srtp.c (tools/gen_kernels.py)",
            "functions": ["srtp_key_limit_update", "srtp_key_limit_set", "srtp_index_guess", "srtp_rdb_increment", "srtp_estimate_index",
                          "srtp_index_advance", "srtp_rdbx_estimate_index", "srtp_rdbx_check", "srtp_rdbx_get_roc", "srtp_rdbx_get_packet_index",
                          "srtp_rdb_check", "v128_left_shift", "bitvector_set_to_zero", "bitvector_left_shift", "srtp_rdb_add_index",
                          "srtp_rdbx_add_index", "srtp_rdbx_set_roc_seq"],
            "translator_failures": kfail, "equivalence_proofs_compiled": kproofs}
    if tier == "thorough" and not kfail:
        # supporting run for the translator itself (trusted base of this tie): the real C functions against the generated Gallina
        try:
            r = vlib.sh(["sh", os.path.join(VERIF, "tools/kernels_difftest.sh"), vlib.REPO, os.path.join(cdir, "cb"), os.path.join(kdir, "coq")], timeout=1200)
            ktie["translator_difftest"] = (r.stdout.strip().split("\n") or [""])[-1][:120] if r.returncode == 0 else "FAILED: " + (r.stderr or r.stdout)[-300:]
        except Exception as e:      # a supporting run: its failure is reported, it decides nothing
            ktie["translator_difftest"] = "not run: " + str(e)[:120]
    # which property rests on which kernel (the theorems of that property are about the hand-written model of that kernel)
    KERNEL_OF = {"srtp_key_limit_update": ["C09"], "srtp_key_limit_set": ["C09"],
                 "srtp_index_guess": ["C06"], "srtp_estimate_index": ["C06", "C16"], "srtp_rdbx_estimate_index": ["C06"], "srtp_index_advance": ["C06"],
                 "srtp_rdbx_get_roc": ["C06", "C16"], "srtp_rdbx_get_packet_index": ["C06"],
                 "srtp_rdb_increment": ["C08", "C07"], "srtp_rdb_check": ["C07"], "srtp_rdb_add_index": ["C07"],
                 "srtp_rdbx_check": ["C05", "C08"], "srtp_rdbx_add_index": ["C05", "C08"], "srtp_rdbx_set_roc_seq": ["C16"],
                 "v128_left_shift": ["C18", "C07"], "bitvector_left_shift": ["C18", "C05"], "bitvector_set_to_zero": ["C18", "C05"]}
    if (kfail or not kproofs or tier == "thorough") and kdir:
        # the tie no longer checks (or thorough tier): search for a concrete in-range input on which the code's kernel (as translated
        # now) and the model differ; such an input is a replay for every property whose theorems rest on that kernel
        try:
            sres, smsg = vlib.kernel_search(cdir, qdir, kdir)
        except Exception as e:
            sres, smsg = [], "kernel search failed: " + str(e)[:120]
        ktie["search"] = {"functions_searched": sum(1 for r in sres if r["fail"] >= 0), "with_failing_input": [r["name"] for r in sres if r["fail"] > 0],
                          "message": smsg}
        for r in sres:
            if r["fail"] > 0 and pid in KERNEL_OF.get(r["name"], []):
                rp = write_replay(pid, len(violations) + 1, "kernel",
                                  f"# property {pid}: the C function {r['name']} (as translated now by tools/gen_kernels.py) and its model differ on an input inside\n"
                                  f"# the hypotheses of {r['name']}_gen_eq ({r['fail']} of {r['inhyp']} grid points); the theorems of {pid} are about the model.\n"
                                  f"# first failing input (order of the generated function's parameters; arrays as word lists):\n"
                                  f"input = {r['input']}\ncode  = {r['gen']}\nmodel = {r['model']}\n"
                                  f"# result format: Some (scalar results, output words, [in-range flag; absN; frame samples]) / None = out of fuel\n"
                                  f"# replay: bash tools/kernel_search.sh /repo <cbuild> <compiled coq dir> out.txt\n")
                violations.append((f"VIOLATION property={pid} replay={rp} kernel {r['name']} differs from its model on an in-range input", rp))
    ev["coverage"]["kernel_tie"] = ktie
    if kfail or not kproofs:
        notes.append("generated-kernel tie does not check (" + (kfail or "KernelGenProofs.v / KernelGenProofs2.v do not compile against the regenerated KernelGen.v")[:160] +
                     "): the kernels' C text changed shape; the hand-written kernel models remain tied by the correspondence runs")
    warn = open(os.path.join(cdir, "Constants.v.warn")).read().split()
    if warn:
        notes.append("constants no longer matched in source text (pinned values used): " + ",".join(warn))

    # ---- 2. proof step
    target = f"Properties_{pid}.v"
    mdrv_ok = status.get("_mdrv")
    pdir = qdir
    if target in vlib.GLOBALS_CONE:
        # C19: the table theorems live in their own small build (regenerated GlobalsGen.v + Globals.v + this file)
        try:
            pdir, pstatus = vlib.build_globals(cdir)
        except vlib.BuildError as e:
            pdir, pstatus = qdir, {}
            notes.append("globals build failed: " + str(e)[:200])
        status = dict(pstatus); status["_mdrv"] = mdrv_ok
    qdir_model, qdir = qdir, pdir
    cone = vlib.deps_cone(qdir, target)
    rel = [os.path.relpath(f, "coq") for f in cone]
    missing = [f for f in rel if not status.get(f)]
    gate = vlib.gate_scan(qdir) + (vlib.gate_scan(kdir) if kdir else [])
    obligations = vlib.count_obligations(qdir, cone)
    proof_ok = not missing and not gate and os.path.exists(os.path.join(qdir, "coq", target + "o"))
    discharged = obligations if proof_ok else vlib.count_obligations(qdir, [f for f in cone if status.get(os.path.relpath(f, "coq"))])
    failed = vlib.failed_logs(qdir, cone) if missing else []
    # Print Assumptions output of the property file
    pa = ""
    mk = open(os.path.join(qdir, "make.log")).read()
    passum = re.findall(r"(Closed under the global context|Axioms:\n(?:.+\n)+?)", mk)
    passum_path = os.path.join(qdir, "coq", f"Properties_{pid}.assumptions")
    r = vlib.sh(["coqc", "-Q", os.path.join(qdir, "coq"), "Srtp", os.path.join(qdir, "coq", target)], cwd=qdir, timeout=900) if proof_ok else None
    if r is not None:
        pa = r.stdout.strip()
    closed = pa.count("Closed under the global context")
    axioms = sorted(set(re.findall(r"^([A-Za-z_][\w.']*) :", pa, re.M))) if "Axioms:" in pa else []

    ev["coverage"].update({
        "obligations": max(obligations, 1), "discharged": discharged,
        "checker_cmd": f"coq_makefile -f _CoqProject && make -k -j{vlib.JOBS} (coqc 8.16.1, full .vo) ; coqc Properties_{pid}.v for Print Assumptions",
        "trusted_base": P.TRUSTED_BASE if hasattr(P, "TRUSTED_BASE") else [],
        "cone_files": rel, "theorems": getattr(P, "THEOREMS", []),
        "print_assumptions": {"closed_theorems": closed, "axioms": axioms},
        "gate_hits": gate, "proof_failures": failed,
        "constants_unmatched": warn,
    })
    ev["assumptions"] = list(getattr(P, "ASSUMPTIONS", []))

    qdir = qdir_model
    # ---- 3/4. correspondence + monitors
    import inspect
    def fams_for(sd):
        if len(inspect.signature(P.families).parameters) >= 3:
            return P.families(tier, sd, {"cdir": cdir, "qdir": qdir, "status": status})
        return P.families(tier, sd)
    fams = fams_for(seed)
    # thorough tier: the same families again under further seeds (VERIF_THOROUGH_SEEDS of them in all, default 3): everything the
    # generators derive comes from the seed, so each round is an independent sample of the same size; corpus scripts repeat harmlessly
    extra_seeds = []
    if tier == "thorough":
        for j in range(1, max(1, int(os.environ.get("VERIF_THOROUGH_SEEDS", "3")))):
            sd = seed + 7919 * j
            extra_seeds.append(sd)
            for f in fams_for(sd):
                f.scripts = [(f"{nm}@{sd}", tx) for (nm, tx) in f.scripts]
                fams.append(f)
    ev["coverage"]["seeds"] = [seed] + extra_seeds
    corr = {"families": {}, "scripts": 0, "ops": 0, "disagreements": 0, "sanitizer_reports": 0, "monitor_hits": 0}
    samples = []
    hits_all = []
    disagree = []
    crashes = []
    nontriv = set()
    cdirs = {"internal": cdir}
    qdirs = {"internal": (qdir, status)}
    for fam in fams:
        if fam.config not in cdirs:
            try:
                cdirs[fam.config] = vlib.build_c(fam.config)
                # the same Gallina model, compiled against the Constants.v regenerated from THIS build's config.h
                qdirs[fam.config] = vlib.build_coq(cdirs[fam.config], model_only=True)
            except vlib.BuildError as e:
                cdirs[fam.config] = None
                notes.append(f"configuration {fam.config} could not be built: {str(e)[:200]}")
        if cdirs[fam.config] is None:
            continue
        fq, fst = qdirs[fam.config]
        use_model = fam.model and fst.get("_mdrv")
        if fam.model and not use_model:
            notes.append(f"model driver for configuration {fam.config} could not be built")
        res = vlib.run_pairs(cdirs[fam.config], fq, fam.scripts, with_model=use_model, heap_live_only=(fam.config != "internal"))
        nops = 0
        fstat = {"scripts": len(res), "ops": 0, "disagreements": 0, "crashes": 0, "monitor_hits": 0}
        for r in res:
            lines = [l for l in r["script"].split("\n") if l.strip() and not l.startswith("#")]
            nops += len(lines)
            if fam.nontrivial:
                nontriv.update(fam.nontrivial(r["script"], r["c"]))
            else:
                nontriv.update(f"{fam.name}:{l}" for l in lines)
            if r["c_rc"] != 0:
                fstat["crashes"] += 1
                crashes.append((fam, r))
            elif use_model and (r["m_rc"] != 0 or r["diff"] is not None):
                fstat["disagreements"] += 1
                disagree.append((fam, r))
            if fam.monitor and r["c_rc"] == 0:
                if getattr(fam, "monitor_wants_model", False):
                    hs = fam.monitor(r["script"], r["c"], r.get("m", []))
                else:
                    hs = fam.monitor(r["script"], r["c"])
                for h in hs:
                    h["family"] = fam.name
                    h["script_name"] = r["name"]
                    h["script"] = r["script"]
                    h["c"] = r["c"]
                hits_all += hs
                fstat["monitor_hits"] += len(hs)
        fstat["ops"] = nops
        fstat["model_compared"] = bool(use_model)
        corr["families"][fam.name] = fstat
        corr["scripts"] += len(res)
        corr["ops"] += nops
        if res and len(samples) < 6:
            samples.append({"family": fam.name, "script": res[0]["script"].split("\n")[:12],
                            "impl_output": res[0]["c"][:12]})
    # property-specific additional runs (e.g. the ThreadSanitizer harness of C19)
    if hasattr(P, "extra"):
        try:
            xh, xstats = P.extra(tier, seed, {"cdir": cdir, "qdir": qdir, "status": status})
        except vlib.BuildError as e:
            xh, xstats = [], {"error": str(e)[:300]}
            notes.append("extra run could not be built: " + str(e)[:200])
        for h in xh:
            h.setdefault("family", "extra"); h.setdefault("script_name", "-"); h.setdefault("script", ""); h.setdefault("c", [])
        hits_all += xh
        corr["extra"] = xstats
    corr["disagreements"] = len(disagree)
    corr["sanitizer_reports"] = len(crashes)
    corr["monitor_hits"] = len(hits_all)
    ev["coverage"].update({
        "evaluations": corr["ops"], "distinct_nontrivial": len(nontriv),
        "rule": getattr(P, "RULE", "one evaluation = one script operation executed on libsrtp (and on the extracted model); distinct = distinct (family, operation line) pairs"),
        "samples": samples, "correspondence": corr,
        "traces_validated_against_impl": corr["scripts"] - len(disagree) - len(crashes),
    })

    # ---- 5. verdict
    known = load_known()
    kf = [k for k in known.get("findings", []) if k["property"] == pid]
    n = 0
    seen_sig = set()
    for h in hits_all:
        sig = h["signature"]
        if sig in seen_sig:
            continue
        seen_sig.add(sig)
        k = next((k for k in kf if re.fullmatch(k["signature"], sig)), None)
        if k:
            known_lines.append(f"KNOWN-FINDING: property={pid} {k['what']} [{sig}]")
            continue
        n += 1
        rp = write_replay(pid, n, "monitor",
                          f"# property {pid}: {h['what']}\n# signature: {sig}\n# detail: {h.get('detail','')}\n"
                          f"# family {h['family']} script {h['script_name']} seed {seed}\n"
                          f"# replay: {VERIF}/bin/replay {pid} <this file>\n"
                          f"# ---- script ----\n{h['script']}\n# ---- implementation transcript ----\n# " + "\n# ".join(h["c"]) + "\n")
        violations.append((f"VIOLATION property={pid} replay={rp} {h['what']}", rp))
    for fam, r in crashes:
        sig = "sanitizer:" + fam.name
        m = re.search(r"(ERROR: AddressSanitizer: [\w-]+|runtime error: [^\n]+|SUMMARY: [^\n]+)", r["c_err"])
        what = m.group(1) if m else f"cdrv exit {r['c_rc']}"
        m2 = re.search(r"#\d+ 0x[0-9a-f]+ in (\w+) /repo/", r["c_err"])
        sig = f"sanitizer:{what.split(':')[-1].strip().split(' ')[0]}:{m2.group(1) if m2 else '?'}"
        if sig in seen_sig:
            continue
        seen_sig.add(sig)
        owner = getattr(P, "SANITIZER_IS_VIOLATION", False)
        k = next((k for k in kf if re.fullmatch(k["signature"], sig)), None)
        if k:
            known_lines.append(f"KNOWN-FINDING: property={pid} {k['what']} [{sig}]")
            continue
        n += 1
        rp = write_replay(pid, n, "sanitizer",
                          f"# property {pid}: implementation driver stopped: {what}\n# signature: {sig}\n"
                          f"# family {fam.name} script {r['name']} seed {seed}\n# ---- script ----\n{r['script']}\n"
                          f"# ---- stderr ----\n# " + "\n# ".join(r["c_err"].split("\n")[:60]) + "\n")
        if owner:
            violations.append((f"VIOLATION property={pid} replay={rp} {what}", rp))
        else:
            violations.append((f"VIOLATION property={pid} replay={rp} implementation crashed during correspondence run ({what}) no-failing-input-found", rp))
    if not violations:
        # broken tie without a concrete property failure
        if disagree:
            fam, r = disagree[0]
            d = r.get("diff")
            detail = f"line {d[0]+1}: impl `{d[1]}` model `{d[2]}`" if d else f"model driver rc={r.get('m_rc')} {r.get('m_err','')[:300]}"
            # known findings may also be identified by a disagreement signature
            sig = f"disagree:{fam.name}:" + (d[1].split(' ')[1] if d and len(d[1].split(' ')) > 1 else "?")
            k = next((k for k in kf if re.fullmatch(k["signature"], sig)), None)
            if k and len(disagree) == sum(1 for f2, r2 in disagree if f2.name == fam.name):
                known_lines.append(f"KNOWN-FINDING: property={pid} {k['what']} [{sig}]")
            else:
                rp = write_replay(pid, 1, "correspondence",
                                  f"# property {pid}: correspondence family '{fam.name}' no longer checks: model and implementation disagree\n"
                                  f"# {detail}\n# {len(disagree)} disagreeing scripts; first one follows (seed {seed})\n"
                                  f"# ---- script ----\n{r['script']}\n# ---- implementation ----\n# " + "\n# ".join(r["c"]) +
                                  "\n# ---- model ----\n# " + "\n# ".join(r.get("m", [])) + "\n")
                violations.append((f"VIOLATION property={pid} replay={rp} correspondence {fam.name} broken ({detail[:120]}) no-failing-input-found", rp))
        if not proof_ok:
            why = "; ".join(failed)[:400] if failed else ("gate: " + ", ".join(gate) if gate else "missing: " + ",".join(missing))
            rp = write_replay(pid, 1, "proof",
                              f"# property {pid}: the theorem file {target} (or a file in its cone) no longer compiles\n"
                              f"# theorems: {getattr(P,'THEOREMS',[])}\n# not compiled: {missing}\n# gate hits: {gate}\n# errors:\n# " + "\n# ".join(failed) + "\n")
            violations.append((f"VIOLATION property={pid} replay={rp} proof obligation broken ({why[:160]}) no-failing-input-found", rp))
        elif not status.get("_mdrv"):
            rp = write_replay(pid, 1, "extract", "# model extraction / OCaml build failed; correspondence could not run\n")
            violations.append((f"VIOLATION property={pid} replay={rp} model driver build failed no-failing-input-found", rp))
    else:
        if not proof_ok:
            notes.append(f"proof step also failing: missing={missing} gate={gate} {failed[:2]}")
        if disagree:
            notes.append(f"{len(disagree)} model/implementation disagreements as well")
    finish(1 if violations else 0)
