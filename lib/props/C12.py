"""C12 — in-place and out-of-place processing give identical results."""
import random
from lib.engine import Family
from lib.gen import *
from lib.apigen import *

THEOREMS = ["protect_refines_domain", "protect_alias_independent_domain", "unprotect_refines", "unprotect_buffers_independent", "unprotect_alias_independent",
            "unprotect_prefill_independent", "protect_rtcp_refines", "unprotect_rtcp_refines", "protect_rtcp_alias_independent", "unprotect_rtcp_alias_independent",
            "protect_alias_cryptex_xtn_refuted (known finding F16)"]
TRUSTED_BASE = ["Coq 8.16.1 kernel", "tools/gen_constants.py", "extraction (ExtrOcamlBasic) + harness/mdrv.ml",
                "harness/cdrv*.c (in-place and three out-of-place pre-fills of the destination), ASan/UBSan",
                "modelled not verified: buffer handling of the four packet functions incl. cryptex shuffles and RFC 6904 walk"]
ASSUMPTIONS = ["on a non-ok status the destination content is unspecified; status and length are compared always, bytes only on success",
               "internal crypto configuration (the documented AEAD+cryptex+CSRC refusal does not arise)"]


def scripts(rng, tier, n=None):
    out = []
    n = n or (20 if tier == "quick" else 210)
    for k in range(n):
        ssrc = rng.randrange(2, 1 << 32)
        p, ext_p = strat_policy(rng, k, ssrc=ssrc, valid=True)
        aead = p.rtp[0] in (GCM128, GCM256)
        klass = k % 10
        if k % 5 == 4 and klass not in (1, 2, 4, 5):
            # the library accepts policies that ask for cryptex and RFC 6904 encryption together
            p.cryptex = True
            p.enc_xtn = p.enc_xtn or bytes(rng.sample(range(1, 15), 2))
        L = [p.line(1)]
        for sid in range(1, 9):
            L.append(f"create {sid:x} 1")
        seq = rng.choice([1, 65530])
        for i in range(6 if tier == "quick" else 20):
            rtcp = rng.random() < 0.35
            pkt = rand_rtcp(rng, ssrc) if rtcp else rand_rtp(rng, ssrc, seq & 0xffff, ids=list(p.enc_xtn) or None, ext_p=ext_p)
            seq += rng.choice([1, 1, 0, 2])
            if rng.random() < 0.15:
                pkt = pkt[:rng.randrange(0, len(pkt) + 1)]        # malformed
            mi = rng.randrange(len(p.keys)) if p.use_mki else 0
            cap = len(pkt) + p.trailer(not rtcp) + rng.choice([0, 0, 0, 7, 7, -1])
            lines = []
            for m in range(4):
                L.append(pkt_op("protect_rtcp" if rtcp else "protect", 1 + m, pkt, cap=cap, mode=m, mki_index=mi))
                lines.append(len(L))
            L.append("# G " + " ".join(f"{x:x}" for x in lines))
            src = lines[0]
            w = rng.random()
            ref = f"@{src:x}" if w < 0.6 else (f"@{src:x}~{rng.randrange(8 * max(1, len(pkt) + 4)):x}" if w < 0.8 else f"@{src:x}<{rng.randrange(0, len(pkt) + 5):x}")
            ucap = len(pkt) + rng.choice([0, 0, 40, -1])
            lines = []
            for rep in range(2 if rng.random() < 0.3 else 1):       # second round = replay
                lines = []
                for m in range(4):
                    L.append(pkt_op("unprotect_rtcp" if rtcp else "unprotect", 5 + m, ref, cap=ucap, mode=m))
                    lines.append(len(L))
                L.append("# G " + " ".join(f"{x:x}" for x in lines))
        for sid in range(1, 9):
            L.append(f"dealloc {sid:x}")
        out.append((f"alias-{k}", "\n".join(L) + "\n"))
    return out


def corpus_cryptex_6904():
    r = random.Random(12012)
    p = default_policy(r, 0xcafebabe, cryptex=True, enc_xtn=b"\x01")
    pkt = rtp_packet(0xcafebabe, 1, payload=b"\x01\x02\x03\x04", ext=one_byte_ext([(1, b"\xaa\xbb\xcc")]))
    L = [p.line(1)] + [f"create {sid:x} 1" for sid in range(1, 5)]
    lines = []
    for m in range(4):
        L.append(pkt_op("protect", 1 + m, pkt, cap=len(pkt) + 10, mode=m)); lines.append(len(L))
    L.append("# G " + " ".join(f"{x:x}" for x in lines))
    L += [f"dealloc {sid:x}" for sid in range(1, 5)]
    return "\n".join(L) + "\n"


def monitor(script, c):
    hits = []
    sl = script.split("\n")
    out = {int(l.split()[0]): l.split() for l in c if l.strip()}
    pol = sl[0].split()
    rtp_tag, rtp_serv = int(pol[8], 16), int(pol[9], 16)
    both = int(pol[22], 16) == 1 and pol[24] not in ("-", "")
    aead_cryptex = int(pol[4], 16) in (GCM128, GCM256) and int(pol[22], 16) == 1
    for i, l in enumerate(sl, 1):
        t = l.split()
        if len(t) > 2 and t[0] == "#" and t[1] == "G":
            rows = [out.get(int(x, 16), []) for x in t[2:]]
            if any(len(r) < 7 for r in rows):
                continue
            base = rows[0]
            for m, r in enumerate(rows):
                if r[5] == "0":
                    hits.append({"what": "out-of-place call modified its input buffer", "signature": "input-modified:" + r[1], "detail": " ".join(r[:3])}); return hits
                if aead_cryptex and r[1] in ("protect", "unprotect") and m > 0 and r[2] == "1d" and base[2] != "1d":
                    # the documented exception: cryptex with CSRCs under AES-GCM is refused out of place (cryptex_err).  From here on
                    # the four sessions are no longer in the same index state (three of them missed a packet): stop judging
                    return hits
                if both and r[1] in ("protect", "unprotect") and (r[2] != base[2] or r[3] != base[3] or (r[2] == "0" and r[4] != base[4])):
                    # cryptex + RFC 6904 in one policy: the 6904 walk runs over the not yet copied destination
                    if not any(h["signature"] == "cryptex-with-6904:" + r[1] for h in hits):
                        hits.append({"what": "policy with cryptex and RFC 6904 encryption together: out-of-place result differs from in-place / depends on the destination's previous content",
                                     "signature": "cryptex-with-6904:" + r[1], "detail": f"line {int(t[2+m],16)} vs {int(t[2],16)}"})
                    return hits      # the sessions have diverged (known finding): later groups are no longer comparable
                if r[2] != base[2] or r[3] != base[3]:
                    hits.append({"what": "status or output length differs between in-place and out-of-place processing",
                                 "signature": "alias-status-differs:" + r[1], "detail": f"mode 0: {base[2]} {base[3]}  mode {m}: {r[2]} {r[3]}"}); return hits
                if r[2] == "0" and r[4] != base[4]:
                    sig = "alias-bytes-differ:" + r[1]
                    if r[1] == "protect" and rtp_tag > 0 and (rtp_serv & 2) == 0:
                        a, b = bytes.fromhex(r[4]) if r[4] != "-" else b"", bytes.fromhex(base[4]) if base[4] != "-" else b""
                        if len(a) == len(b) and a[:len(a) - rtp_tag] == b[:len(b) - rtp_tag]:
                            sig = "tag-without-auth-service"
                    hits.append({"what": "output bytes depend on the processing mode / previous content of the output buffer",
                                 "signature": sig, "detail": f"line {int(t[2+m],16)} vs {int(t[2],16)}"}); 
                    if sig != "tag-without-auth-service":
                        return hits
    return hits


def families(tier, seed):
    rng = random.Random(seed * 1000 + 12)
    # corpus first: the cryptex + RFC 6904 policy of the known finding, independent of the seed
    corpus = [("corpus-cryptex-6904", corpus_cryptex_6904())]
    rng2 = random.Random(seed * 1000 + 112)
    return [Family("four-modes", corpus + scripts(rng, tier), monitor=monitor),
            Family("gcm-four-modes", with_aead(scripts, rng2, tier, n=(14 if tier == "quick" else 126)), monitor=monitor, config="openssl")]
