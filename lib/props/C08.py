"""C08 — a sender never encrypts two packets with the same key and IV."""
import random
from lib.engine import Family
from lib.gen import *
from lib.apigen import *

THEOREMS = ["tx_indices_distinct", "rtcp_tx_strictly_increasing", "iv_injective"]
TRUSTED_BASE = ["Coq 8.16.1 kernel", "tools/gen_constants.py", "extraction (ExtrOcamlBasic) + harness/mdrv.ml",
                "harness/cdrv_api.c: AES-ICM cipher types wrapped through srtp_replace_cipher_type; every (key fingerprint, IV) set for encryption is logged",
                "modelled not verified: sender-side replay check in srtp_protect, srtp_rdb_increment, IV formation in srtp/srtp.c"]
ASSUMPTIONS = ["packet index below 2^48 (ROC wrap needs 2^33 srtp_protect calls or srtp_stream_set_roc, both outside this property's quantifier)",
               "key identity is observed as the first four octets of the session encryption key (collision probability 2^-32 per pair)"]


def scripts(rng, tier, n=None):
    out = []
    n = n or (14 if tier == "quick" else 150)
    for k in range(n):
        wildcard = rng.random() < 0.4
        ssrcs = [rng.randrange(2, 1 << 32) for _ in range(3 if wildcard else 1)]
        p = rand_policy(rng, ssrc=ssrcs[0], valid=True)
        aead = p.rtp[0] in (GCM128, GCM256)
        if not aead:
            p.rtp = (rng.choice([ICM128, ICM256]),) + p.rtp[1:]
            p.rtp = (p.rtp[0], 30 if p.rtp[0] == ICM128 else 46) + p.rtp[2:5] + (p.rtp[5] | 1,)
            p.rtcp = (ICM128, 30) + p.rtcp[2:5] + (3,)
            kl = 46 if p.rtp[0] == ICM256 else 30
            p.keys = [(rand_key(rng, kl), m) for (_, m) in p.keys]
        p.allow_repeat = rng.random() < 0.25
        L = [p.line(1, ssrc_type=SSRC_ANY_OUT if wildcard else SSRC_SPECIFIC), "create 1 1"]
        if rng.random() < 0.5:
            L.append(pkt_op("protect_rtcp", 1, rtcp_packet(ssrcs[0], b"\0" * 8), extra=200))
            L.append(f"poke_rtcp 1 0 {H(ssrcs[0])} {H(rng.choice([0x7ffffffa, 0x7ffffffd, 0x7ffffffe, 5]))}")
        base = {s: rng.choice([0, 65500, 100]) for s in ssrcs}
        roc = {}
        for i in range(40 if tier == "quick" else 200):
            s = rng.choice(ssrcs)
            r = rng.random()
            if r < 0.06 and not wildcard:
                # the application moves the sender's rollover counter ahead (index-advance path of srtp_protect);
                # the next sequence numbers are then sent, and re-sent, under the new ROC
                roc[s] = roc.get(s, 0) + rng.choice([1, 1, 2, 300])
                L.append(f"setroc 1 {H(s)} {H(roc[s])}")
            elif r < 0.25:
                rp = rtcp_packet(s, rand_key(rng, 12))
                mi = rng.randrange(len(p.keys)) if p.use_mki else 0
                L.append(pkt_op("protect_rtcp", 1, rp, extra=200, mki_index=mi)); L.append(f"peek 1 0 {H(s)}"); L.append(f"# C {s:x}")
            else:
                d = rng.choice([0, 0, 1, 1, 1, 2, -1, -2, -5, 70000, 40, 65536, 65535])
                q = base[s] + d
                if d > 0 and d < 60000: base[s] = q
                pkt = rtp_packet(s, q & 0xffff, payload=rand_key(rng, rng.choice([1, 16, 33])))
                mi = rng.randrange(len(p.keys)) if p.use_mki else 0
                L.append(pkt_op("protect", 1, pkt, extra=200, mki_index=mi, mode=rng.choice([0, 1]))); L.append(f"# P {s:x} {mi}")
        L += [f"# END {1 if p.allow_repeat else 0}", "dealloc 1"]
        out.append((f"tx-{k}", "\n".join(L) + "\n"))
    return out


def monitor(script, c):
    hits = []
    sl = script.split("\n")
    out = {int(l.split()[0]): l.split() for l in c if l.strip()}
    allow = any(l.startswith("# END 1") for l in sl)
    seen = {}
    rtcp_last = {}
    expired = set()
    for i, l in enumerate(sl, 1):
        t = l.split()
        if len(t) < 2 or t[0] != "#":
            continue
        if t[1] in ("P", "C"):
            o = out.get(i - 1 if t[1] == "P" else i - 2, [])
            if len(o) < 9:
                continue
            st = int(o[2], 16)
            ivs = o[8]
            if st == 0 and ivs != "-" and not allow:
                for j in range(0, len(ivs), 40):
                    rec = ivs[j:j + 40]
                    if rec in seen:
                        hits.append({"what": "two encryptions used the same (key, IV) pair", "signature": "iv-reuse:" + o[1],
                                     "detail": f"line {o[0]} and line {seen[rec]}: key {rec[:8]} iv {rec[8:]}"}); return hits
                    seen[rec] = o[0]
        if t[1] == "C":
            o = out.get(i - 2, []); pk = out.get(i - 1, [])
            if len(o) < 3 or len(pk) < 7:
                continue
            st = int(o[2], 16); s = t[2]
            idx = int(pk[6], 16)
            if st == 0:
                if s in expired:
                    hits.append({"what": "srtp_protect_rtcp succeeded again after key_expired", "signature": "rtcp-after-expiry", "detail": f"line {o[0]}"}); return hits
                if idx > 0x7fffffff or (s in rtcp_last and idx <= rtcp_last[s]):
                    hits.append({"what": "SRTCP index not strictly increasing / above 2^31-1", "signature": "rtcp-index-order",
                                 "detail": f"line {o[0]}: {idx:x} after {rtcp_last.get(s)}"}); return hits
                wire = bytes.fromhex(o[4]); 
                rtcp_last[s] = idx
            elif st == 0xf:
                expired.add(s)
                if idx != 0x7fffffff:
                    hits.append({"what": "key_expired reported before the SRTCP index reached 2^31-1", "signature": "rtcp-early-expiry",
                                 "detail": f"line {o[0]}: index {idx:x}"}); return hits
    return hits


def families(tier, seed):
    rng = random.Random(seed * 1000 + 8)
    return [Family("sender-histories", scripts(rng, tier), monitor=monitor),
            # AES-GCM senders (OpenSSL configuration; the driver wraps the GCM cipher types too): a repeated (key, IV) is fatal for GCM
            Family("gcm-sender-histories", with_aead(scripts, random.Random(seed * 1000 + 108), tier, n=(8 if tier == "quick" else 100)), monitor=monitor, config="openssl")]
