"""C04 — integrity: only packets made with the session key are ever accepted."""
import random
from lib.engine import Family
from lib.gen import *
from lib.apigen import *

THEOREMS = ["oct_equal_iff", "accept_implies_tag_matches"]
TRUSTED_BASE = ["Coq 8.16.1 kernel", "tools/gen_constants.py", "extraction (ExtrOcamlBasic) + harness/mdrv.ml",
                "harness/cdrv*.c driving srtp_unprotect / srtp_unprotect_rtcp with mutated packets (ASan/UBSan)",
                "Gallina HMAC-SHA1 (RFC 2202 vectors) is the reference that decides whether a mutated packet authenticates",
                "modelled not verified: tag computation and comparison in srtp/srtp.c, srtp_octet_string_equal, hmac.c"]
ASSUMPTIONS = ["unforgeability of HMAC-SHA1 itself is not provable here; the theorem is 'accepted iff the tag bytes equal HMAC(k, authenticated portion || ROC)' "
               "plus, under an explicit collision-freeness premise, 'accepted => genuine'"]


def scripts(rng, tier, n=None):
    out = []
    n = n or (12 if tier == "quick" else 120)
    for k in range(n):
        ssrc = rng.randrange(2, 1 << 32)
        p, _ = strat_policy(rng, k, ssrc=ssrc, valid=True, allow_cryptex=(k % 3 == 0))
        # authenticating policy
        tag = rng.choice([4, 10, 10, 16])
        aead = p.rtp[0] in (GCM128, GCM256)      # AES-GCM authenticates every packet (tag 16 or 8), whatever sec_serv says
        if not aead:
            p.rtp = p.rtp[:2] + (HMAC, 20, tag, p.rtp[5] | 2)
            # SRTCP is always authenticated, whatever sec_serv says: the service flags of the two directions are independent
            p.rtcp = p.rtcp[:2] + (HMAC, 20, rng.choice([4, 10, 16]), rng.choice([0, 1, 2, 3, 3]))
        # a third of the scripts: the receiver is keyed with a wildcard policy and has already accepted one genuine packet
        # of the SSRC, so that the altered packets meet the per-SSRC CLONE of the template, not the template itself
        wild = (k % 3 == 1)
        q = rand_policy(rng, ssrc=ssrc ^ 0x10, valid=True, mki=p.use_mki)     # a second stream with other keys
        q.rtp, q.rtcp, q.mki_size, q.use_mki = p.rtp, p.rtcp, p.mki_size, p.use_mki
        if p.use_mki:
            q.keys = [(rand_key(rng, len(p.keys[0][0])), m) for (_, m) in p.keys]; q.use_key_field = False
        else:
            q.keys = [(rand_key(rng, len(p.keys[0][0])), b"")]; q.use_key_field = True
        L = [p.line(1), q.line(2), "create 1 1 2"]
        if wild:
            L.insert(2, p.line(3, ssrc_type=SSRC_ANY_IN))
        nrx = 0
        def fresh_rx():
            nonlocal nrx
            nrx += 1
            sid = 2 + (nrx % 40)
            L.append(f"dealloc {sid:x}"); L.append(f"create {sid:x} 3" if wild else f"create {sid:x} 1 2")
            return sid
        seq = 10
        genuine = []
        for i in range(3 if tier == "quick" else 6):
            rtcp = i % 3 == 2
            for s in (ssrc, ssrc ^ 0x10):
                pkt = rand_rtcp(rng, s) if rtcp else rand_rtp(rng, s, seq, ids=list(p.enc_xtn) or None)
                mi = rng.randrange(len(p.keys)) if p.use_mki else 0
                L.append(pkt_op("protect_rtcp" if rtcp else "protect", 1, pkt, cap=len(pkt) + p.trailer(not rtcp), mki_index=mi))
                genuine.append((len(L), rtcp, len(pkt) + p.trailer(not rtcp), s, mi))
            seq += 1
        for (src, rtcp, tot, s, mi) in genuine:
            uop = "unprotect_rtcp" if rtcp else "unprotect"
            if wild and s != ssrc:
                continue            # the wildcard receiver holds the first stream's keys only
            muts = []
            bits = list(range(8 * tot))
            tail_bits = [b for b in bits if b >= 8 * (tot - p.trailer(not rtcp))]
            sample = set(tail_bits if tier != "quick" else rng.sample(tail_bits, min(12, len(tail_bits))))
            sample |= set(bits if tier != "quick" and tot < 120 else rng.sample(bits, min(24, len(bits))))
            if p.use_mki:
                # the MKI octets are not covered by the tag: the key lookup is what refuses a changed MKI (first and last octet, every run)
                m0 = (tot - p.mki_size) if p.rtp[0] in (GCM128, GCM256) and rtcp else (tot - p.trailer(not rtcp) + (4 if rtcp else 0))
                if p.rtp[0] in (GCM128, GCM256) and not rtcp:
                    m0 = tot - p.mki_size
                for o in {m0, m0 + p.mki_size - 1}:
                    if 8 <= o < tot:
                        sample |= set(range(8 * o, 8 * o + 8))
            if rtcp:
                # the E flag and the top of the SRTCP index: the first trailer octet, wherever this kind of policy puts the trailer
                # (before MKI and tag; with AES-GCM after the tag) — every bit of it, in every run
                msz = p.mki_size if p.use_mki else 0
                for o in {tot - p.trailer(False), tot - 4 - msz}:
                    if 8 <= o < tot:
                        sample |= set(range(8 * o, 8 * o + 8))
            for b in sorted(sample):
                muts.append(f"@{src:x}~{b:x}")
            for d in (range(1, 41) if tier != "quick" else [1, 2, 4, 10, 11, 20, 39]):
                if tot - d >= 0:
                    muts.append(f"@{src:x}<{tot - d:x}")
                muts.append(f"@{src:x}+{rand_key(rng, d).hex()}")
            # tag / trailer / MKI substitution from another genuine packet of the same kind
            others = [g for g in genuine if g[1] == rtcp and g[0] != src]
            for (o_src, _, o_tot, o_s, _) in others[:3]:
                tl = p.trailer(not rtcp)
                muts.append(("splice", src, tot, o_src, o_tot, tl))
            # RTP <-> RTCP
            muts.append(("cross", src))
            # the genuine packet under another rollover counter (the ROC is authenticated: HMAC covers it, GCM has it in the IV)
            if not rtcp:
                muts.append(("roc", src, rng.choice([1, 2, 0x10000, 0x20000, 0xffff0000, 0x7fff0000])))
            sid = fresh_rx()
            if wild:
                prev = [g for g in genuine if g[3] == s and g[0] != src and g[3] == ssrc]
                if prev and s == ssrc:
                    g = prev[0]
                    L.append(pkt_op("unprotect_rtcp" if g[1] else "unprotect", sid, f"@{g[0]:x}", cap=g[2] + 60)); L.append("# PRE")
            for m in muts:
                if isinstance(m, tuple) and m[0] == "splice":
                    _, a, at, b, bt, tl = m
                    # body of a with the trailer (tag / SRTCP trailer / MKI) of b, and single fields
                    for (cut_a, from_b) in ((at - tl, bt - tl), (at - p.rtp[4] if not rtcp else at - p.rtcp[4], bt - (p.rtp[4] if not rtcp else p.rtcp[4]))):
                        L.append(pkt_op(uop, sid, f"@{a:x}<{max(cut_a,0):x}&{b:x}:{max(from_b,0):x}", cap=tot + 60, mode=rng.choice([0, 1])))
                        L.append("# M s")
                    continue
                if isinstance(m, tuple) and m[0] == "roc":
                    # a receiver that was told another ROC for this SSRC (srtp_stream_set_roc needs the stream to exist:
                    # explicit policies only)
                    if not wild:
                        rs = fresh_rx()
                        L.append(f"setroc {rs:x} {H(s)} {H(m[2])}")
                        L.append(pkt_op(uop, rs, f"@{m[1]:x}", cap=tot + 60, mode=rng.choice([0, 1])))
                        L.append("# M roc")
                    continue
                if isinstance(m, tuple) and m[0] == "cross":
                    L.append(pkt_op("unprotect" if rtcp else "unprotect_rtcp", sid, f"@{m[1]:x}", cap=tot + 60, mode=rng.choice([0, 1])))
                    L.append(f"# M cross")
                    continue
                L.append(pkt_op(uop, sid, m, cap=tot + 60, mode=rng.choice([0, 1])))
                L.append("# M " + m[len(f"@{src:x}"):][:1])
            # the unmodified packet is accepted by a fresh receiver, and not twice
            L.append(pkt_op(uop, sid, f"@{src:x}", cap=tot + 60)); L.append("# OK")
        out.append((f"mut-{k}", "\n".join(L) + "\n"))
    return out


def monitor(script, c):
    hits = []
    sl = script.split("\n")
    out = {int(l.split()[0]): l.split() for l in c if l.strip()}
    consumed = set()
    for i, l in enumerate(sl, 1):
        t = l.split()
        if len(t) > 1 and t[0] == "#" and t[1] == "M":
            o = out.get(i - 1, [])
            if len(o) > 2 and int(o[2], 16) == 0:
                if len(t) > 2 and t[2] == "s":
                    # a body spliced with another genuine packet's trailer: when the two bodies are equal the result IS the
                    # other genuine packet, not an altered one
                    import re
                    m = re.match(r"@([0-9a-f]+)<([0-9a-f]+)&([0-9a-f]+):([0-9a-f]+)$", sl[i - 2].split("|")[1].strip())
                    if m:
                        a, cut, b, off = (int(x, 16) for x in m.groups())
                        oa, ob = out.get(a, []), out.get(b, [])
                        if len(oa) > 4 and len(ob) > 4:
                            A = bytes.fromhex(oa[4]) if oa[4] != "-" else b""
                            B = bytes.fromhex(ob[4]) if ob[4] != "-" else b""
                            if A[:cut] + B[off:] in (A, B):
                                consumed.add((sl[i - 2].split()[1], A[:cut] + B[off:]))     # that genuine packet has now been accepted by this session
                                continue
                kind = {"~": "bit flip", "<": "truncation", "+": "extension", "cross": "RTP/RTCP splice", "s": "tag/trailer/MKI substitution", "roc": "a different rollover counter"}.get(t[2] if len(t) > 2 else "", "mutation")
                hits.append({"what": f"a packet altered by {kind} was accepted", "signature": "mutated-accepted:" + kind.replace(" ", "-") + ":" + o[1],
                             "detail": f"line {i-1}: {sl[i-2][:120]}"}); break
        if len(t) > 1 and t[0] == "#" and t[1] == "OK":
            o = out.get(i - 1, [])
            src_line = sl[i - 2].split("|")[1].strip()
            ref = out.get(int(src_line[1:], 16), [])
            if len(o) > 2 and len(ref) > 4 and int(o[2], 16) == 9 and (sl[i - 2].split()[1], bytes.fromhex(ref[4]) if ref[4] != "-" else b"") in consumed:
                continue       # a substitution reproduced this very packet and the session accepted it: the second copy is a replay
            if len(o) > 2 and len(ref) > 2 and int(ref[2], 16) == 0 and int(o[2], 16) != 0:
                hits.append({"what": "genuine packet rejected by a fresh receiver with the same keys", "signature": "genuine-rejected:" + o[1],
                             "detail": f"line {i-1}: status {o[2]}"}); break
    return hits


def key_scripts(rng, tier):
    """every octet of the master key matters: a sender whose master key differs from the receiver's in ONE bit (first, middle
    and last octet of the cipher key part and of the salt part, for every key-size combination of the SRTP and SRTCP halves)
    produces packets the receiver refuses.  "# K" marks an unprotect that must not return ok."""
    out = []
    combos = [(ICM128, ICM128), (ICM256, ICM256), (ICM128, ICM256), (ICM256, ICM128), (NULL_CIPHER, ICM128), (ICM256, NULL_CIPHER)]
    for k, (c1, c2) in enumerate(combos):
        kl = lambda c: 46 if c == ICM256 else 30
        klen = max(kl(c1), kl(c2))
        ssrc = rng.randrange(2, 1 << 32)
        key = rand_key(rng, klen)
        p = default_policy(rng, ssrc, rtp=cp(cipher=c1, keylen=kl(c1)), rtcp=cp(cipher=c2, keylen=kl(c2)), keys=[(key, b"")])
        L = [p.line(1), "create 1 1"]
        pos = sorted({0, 7, 15, 16, klen - 15, klen - 14, klen - 13, klen - 1, 29, 30 if klen > 30 else 0, 31 if klen > 31 else 0})
        if tier != "quick":
            pos = list(range(klen))
        sid = 2
        for j, o in enumerate(pos):
            k2 = bytearray(key); k2[o] ^= 1 << rng.randrange(8)
            L.append(p.line(2, keys=[(bytes(k2), b"")]))
            L.append(f"create {sid:x} 2")
            pkt = rtp_packet(ssrc, 10 + j, payload=rand_key(rng, 20))
            L.append(pkt_op("protect", sid, pkt, extra=40)); a = len(L)
            L.append(pkt_op("unprotect", 1, f"@{a:x}", cap=100)); L.append("# K")
            rp = rtcp_packet(ssrc, rand_key(rng, 16))
            L.append(pkt_op("protect_rtcp", sid, rp, extra=40)); a = len(L)
            L.append(pkt_op("unprotect_rtcp", 1, f"@{a:x}", cap=100)); L.append("# K")
            L.append(f"dealloc {sid:x}")
        # control: the genuine key is accepted
        L.append(p.line(2)); L.append("create 2 2")
        pkt = rtp_packet(ssrc, 500, payload=b"genuine")
        L.append(pkt_op("protect", 2, pkt, extra=40)); a = len(L)
        L.append(pkt_op("unprotect", 1, f"@{a:x}", cap=100)); L.append("# G")
        L += ["dealloc 1", "dealloc 2"]
        out.append((f"keybits-{k}", "\n".join(L) + "\n"))
    return out


def key_monitor(script, c):
    hits = []
    sl = script.split("\n")
    out = {int(l.split()[0]): l.split() for l in c if l.strip()}
    for i, l in enumerate(sl, 1):
        if l.strip() == "# K":
            o, src = out.get(i - 1, []), out.get(i - 2, [])
            if len(o) > 2 and len(src) > 2 and int(src[2], 16) == 0 and int(o[2], 16) == 0:
                hits.append({"what": "a packet protected under a master key that differs from the receiver's in one bit was accepted",
                             "signature": "key-bit-ignored:" + o[1], "detail": f"line {i-1}; sender policy line {sl[i-5][:60] if i > 5 else ''}"}); break
        elif l.strip() == "# G":
            o = out.get(i - 1, [])
            if len(o) > 2 and int(o[2], 16) != 0:
                hits.append({"what": "control: a packet protected under the receiver's own master key was refused", "signature": "key-control", "detail": f"line {i-1}: {o[2]}"}); break
    return hits


def families(tier, seed):
    rng = random.Random(seed * 1000 + 4)
    return [Family("mutations", scripts(rng, tier), monitor=monitor),
            Family("master-key-bits", key_scripts(random.Random(seed * 1000 + 204), tier), monitor=key_monitor),
            Family("gcm-mutations", with_aead(scripts, random.Random(seed * 1000 + 104), tier, n=(5 if tier == "quick" else 60)), monitor=monitor, config="openssl")]
