"""C01 — SRTP round trip: unprotect(protect(p)) returns exactly p."""
import random
from lib.engine import Family
from lib.gen import *
from lib.apigen import *

THEOREMS = ["protect_refines_domain", "protect_emits_rtp_wire_domain", "srtp_protect_unprotect_domain", "srtp_round_trip_classes", "srtp_round_trip_xtn", "srtp_round_trip_noxtn",
            "xtn_one_involutive", "xtn_two_involutive", "xtn_apply_outside", "xtn_apply_involutive", "cryptex_adjust_restore_id",
            "RtpEx.* (vm_compute examples: plain+MKI, RFC 6904, cryptex, four alias combinations)"]
TRUSTED_BASE = ["Coq 8.16.1 kernel", "tools/gen_constants.py", "extraction (ExtrOcamlBasic) + harness/mdrv.ml",
                "harness/cdrv*.c driving srtp_protect / srtp_unprotect on libsrtp (ASan/UBSan)",
                "Gallina AES / SHA-1 / HMAC (FIPS / RFC vectors as Examples) used to run the model",
                "modelled not verified: srtp_protect, srtp_unprotect and helpers in srtp/srtp.c, aes_icm.c, hmac.c, sha1.c, aes.c"]
ASSUMPTIONS = ["internal crypto backend only (OpenSSL / mbedTLS / NSS / wolfSSL builds are not exercised by the quick tier)",
               "domain exclusions of the property: cryptex together with RFC 6904 encryption; plaintext already carrying a cryptex profile id"]


def in_domain(p, pkt):
    """the property's own exclusions + what protect refuses"""
    x = (pkt[0] >> 4) & 1
    cc = pkt[0] & 15
    if x:
        prof = int.from_bytes(pkt[12 + 4 * cc:14 + 4 * cc], "big")
        if prof in (0xC0DE, 0xC2DE):
            return False
    return True


def scripts(rng, tier, n=None):
    out = []
    n = n or (40 if tier == "quick" else 600)
    for k in range(n):
        ssrc = rng.randrange(2, 1 << 32)
        p, ext_p = strat_policy(rng, k, ssrc=ssrc, valid=True)
        if k % 10 == 4:
            p.rtp = p.rtp[:5] + ((3, 2)[(k // 10) % 2],)      # cryptex is defined for streams with confidentiality; without it the policy flag must change nothing
        # a third of the scripts use wildcard policies on both sides: the streams that do the work are clones of
        # the template (srtp_stream_clone copies services, keys, MKI setting, window size), several SSRCs
        wild = rng.random() < 0.35 and k % 10 != 5
        ssrcs = [ssrc, ssrc ^ 0x55, ssrc ^ 0x1000] if wild else [ssrc]
        if wild:
            L = [p.line(1, ssrc_type=SSRC_ANY_OUT), p.line(2, ssrc_type=SSRC_ANY_IN), "create 1 1", "create 2 2"]
        else:
            L = [p.line(1), "create 1 1", "create 2 1"]
        seq = [0, 1, 65533, 30000][k % 4] if k % 3 == 0 else rng.choice([0, 1, 65533, 30000])
        forced_late = k % 10 == 5 and not wild
        if forced_late:
            seq = 65533        # RFC 6904 class: 65533, 65535, 0, then 65534 LATE (its index lies before the wrap), with listed elements
        gaps = []           # sequence numbers the sender skipped: sent LATE afterwards (sender-side reordering, also across the wrap)
        for i in range(8 if tier == "quick" else 30):
            big = tier != "quick" and rng.random() < 0.05
            if k % 10 == 4 and i < 4:
                # cryptex with CSRCs and next to nothing behind them: 4*cc octets move across the extension header, the bounds of the
                # encrypted portion are computed differently in place and not in place
                cc_, xd, pl = [(1, b"", 0), (3, rand_key(rng, 4), 4), (15, b"", 16), (2, rand_key(rng, 4), 3)][i]
                pkt = rtp_packet(ssrcs[0], seq & 0xffff, payload=rand_key(rng, pl), cc=cc_, ext=(0xBEDE, xd))
                seq += 1
            elif i == 6:
                # a payload shorter than any tag (0..7 octets), no extension: length arithmetic with the tag at its smallest operand
                pkt = rtp_packet(ssrcs[0], seq & 0xffff, payload=rand_key(rng, [0, 1, 5, 7][k % 4]), cc=rng.choice([0, 0, 1]))
                seq += 1
            elif gaps and not wild and ((rng.random() < 0.3 and not (forced_late and i < 3)) or (forced_late and i == 3)):
                late = gaps.pop(rng.randrange(len(gaps)))
                pkt = rand_rtp(rng, ssrcs[0], late & 0xffff, ids=list(p.enc_xtn) or None, big=big, ext_p=ext_p)
                if forced_late and i == 3 and p.enc_xtn:
                    # ... and it carries a listed element for certain
                    pkt = rtp_packet(ssrcs[0], late & 0xffff, payload=rand_key(rng, 20), cc=rng.choice([0, 1]),
                                     ext=one_byte_ext([(p.enc_xtn[0], rand_key(rng, 3)), (p.enc_xtn[-1], rand_key(rng, 1))]))
            else:
                pkt = rand_rtp(rng, rng.choice(ssrcs), seq & 0xffff, ids=list(p.enc_xtn) or None, big=big, ext_p=ext_p)
                if forced_late and i < 3 and p.enc_xtn:
                    # well-formed packets up to the wrap (a packet srtp_protect refuses would end the judging of this SSRC)
                    pkt = rtp_packet(ssrcs[0], seq & 0xffff, payload=rand_key(rng, 12), ext=one_byte_ext([(p.enc_xtn[0], rand_key(rng, 2))]))
                step = rng.choice([1, 1, 2, 5]) if not (forced_late and i < 3) else [2, 1, 1][i]
                gaps += [seq + d for d in range(1, step)]
                gaps = gaps[-6:]
                seq += step
            mi = rng.randrange(len(p.keys)) if p.use_mki else rng.choice([0, 0, 1, 3])      # without MKIs the argument is documented as ignored
            L.append(pkt_op("protect", 1, pkt, cap=len(pkt) + p.trailer(), mode=rng.choice([0, 1, 2]), mki_index=mi)); a = len(L)
            umode = rng.choice([0, 1, 2])
            L.append(pkt_op("unprotect", 2, f"@{a:x}", cap=len(pkt) + p.trailer(), mode=umode))
            # documented exception: cryptex with CSRCs under AES-GCM is refused out of place (srtp_err_status_cryptex_err)
            refused_by_design = p.rtp[0] in (GCM128, GCM256) and p.cryptex and (pkt[0] & 15) and umode != 0
            L.append(f"# RT {1 if in_domain(p, pkt) and not refused_by_design else 0}")
        L += ["dealloc 1", "dealloc 2"]
        out.append((f"rt-{k}", "\n".join(L) + "\n"))
    return out


def monitor(script, c):
    hits = []
    sl = script.split("\n")
    out = {int(l.split()[0]): l.split() for l in c if l.strip()}
    desync = set()      # SSRCs whose receiver missed a packet the sender processed: "same index state" no longer holds for them
    for i, l in enumerate(sl, 1):
        t = l.split()
        if len(t) > 2 and t[0] == "#" and t[1] == "RT":
            pr, un = out.get(i - 2, []), out.get(i - 1, [])
            ssrc = sl[i - 3].split("|")[1].strip()[16:24]
            if len(pr) < 5 or len(un) < 5 or int(pr[2], 16) != 0:
                # protect refused the packet: nothing to round-trip.  srtp_protect may have advanced the sender's index
                # before it refused (the extension walk runs after srtp_rdbx_add_index), which the receiver cannot follow
                desync.add(ssrc)
                continue
            if t[2] == "0" or ssrc in desync:
                # outside the property's domain (or the peer is no longer in the same index state): the sender has advanced;
                # if the receiver did not accept this packet its estimate may differ from now on
                if int(un[2], 16) != 0:
                    desync.add(ssrc)
                continue
            orig = sl[i - 3].split("|")[1].strip()
            if int(un[2], 16) != 0:
                hits.append({"what": "peer session fails to unprotect a packet srtp_protect produced", "signature": "rtp-roundtrip-status",
                             "detail": f"line {i-1}: status {un[2]}"}); break
            if un[4] != orig:
                hits.append({"what": "unprotect(protect(p)) is not byte-identical to p", "signature": "rtp-roundtrip-bytes",
                             "detail": f"line {i-1}: got {un[4][:80]} expected {orig[:80]}"}); break
    return hits


def families(tier, seed):
    rng = random.Random(seed * 1000 + 1)
    rng2 = random.Random(seed * 1000 + 101)
    return [Family("rtp-roundtrip", scripts(rng, tier), monitor=monitor),
            # AES-GCM (RFC 7714) policies: libsrtp built from the working tree against OpenSSL, the model compiled with that
            # build's back-end flags (Aead.v: srtp_protect_aead / srtp_unprotect_aead, Crypto/GCM.v)
            Family("gcm-roundtrip", with_aead(scripts, rng2, tier, n=(16 if tier == "quick" else 200)), monitor=monitor, config="openssl")]
