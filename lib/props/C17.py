"""C17 — no leak, double free or crash on any path, including allocation failure."""
import random
from lib.engine import Family
from lib.gen import *
from lib.apigen import *

THEOREMS = ["alloc_balance"]
TRUSTED_BASE = ["Coq 8.16.1 kernel", "tools/gen_constants.py", "extraction (ExtrOcamlBasic) + harness/mdrv.ml",
                "harness/cdrv_api.c allocator wrappers (--wrap=calloc,free: live-block count, fail-the-n-th allocation), ASan/LSan",
                "modelled not verified: every allocation / release site of srtp/srtp.c, crypto/kernel/alloc.c, cipher and auth alloc/dealloc"]
ASSUMPTIONS = ["the allocator itself (glibc under ASan) and objects owned by third-party crypto libraries are outside the model",
               "internal crypto configuration"]
SANITIZER_IS_VIOLATION = True


def lifecycle(rng, fail_at=None, fail_op=None, kind=None):
    """one lifecycle script; if fail_op is given, 'failnth fail_at' is placed before that op index"""
    ssrc = rng.randrange(2, 1 << 32)
    kind = kind if kind is not None else rng.randrange(6)
    mki = rng.random() < 0.4 and kind != 0        # (kind 0 also carries the legacy-key-with-count policy, which needs MKIs off)
    def pol(t, s, valid=True, xtn=False):
        p = default_policy(rng, s, ssrc_type=t, window=rng.choice([64, 128, 1024]))
        if mki:
            p.keys = [(rand_key(rng, 30), bytes([i, 9])) for i in range(2)]; p.use_mki = True; p.mki_size = 2; p.use_key_field = False
        if xtn:
            p.enc_xtn = b"\x01\x02"
        if rng.random() < 0.3:
            p.rtp = cp(cipher=NULL_CIPHER, keylen=30); 
        if not valid:
            p.window = 10
        return p
    ops = []
    P = []
    P.append(pol(SSRC_SPECIFIC, ssrc).line(1))
    P.append(pol(SSRC_ANY_OUT, 0, xtn=rng.random() < 0.5).line(2))
    P.append(pol(SSRC_ANY_IN, 0).line(3))
    P.append(pol(SSRC_SPECIFIC, ssrc ^ 1).line(4))
    P.append(pol(SSRC_SPECIFIC, ssrc, valid=False).line(5))
    P.append(pol(SSRC_ANY_OUT, 0, valid=False).line(6))
    P.append(pol(SSRC_SPECIFIC, ssrc).line(7, **({} if mki else {"nkeys": 2})))     # legacy `key` pointer AND a key count: one key is what exists
    P.append(pol(SSRC_ANY_OUT, 0).line(8))
    P.append(pol(SSRC_SPECIFIC, 5).line(9))
    def pk(s, q): return rtp_packet(s, q, payload=b"x" * 20)
    if kind == 0:
        ops = ["create 1 1", pkt_op("protect", 1, pk(ssrc, 1), extra=40), "add 1 4", f"remove 1 {H(ssrc)}", "update 1 7", "add 1 1", "update 1 7", "update 1 5"]
    elif kind == 1:
        ops = ["create 1 2", pkt_op("protect", 1, pk(5, 1), extra=40), pkt_op("protect", 1, pk(6, 1), extra=40),
               pkt_op("protect_rtcp", 1, rtcp_packet(7, b"\0" * 8), extra=40), "add 1 1", pkt_op("protect", 1, pk(8, 1), extra=40),
               "update 1 8", "update 1 6", pkt_op("protect", 1, pk(9, 1), extra=40), "remove 1 5"]
    elif kind == 2:
        ops = ["create 1 1 2", "create 2 1 3", pkt_op("protect", 1, pk(77, 3), extra=40), pkt_op("unprotect", 2, "@%x" % 0, cap=200)]
    elif kind == 3:
        ops = ["create 1 1 4 2", "add 1 3", "add 1 5", "update 1 8 7", "stream_update 1 6", "stream_update 1 5", f"remove 1 {H(ssrc ^ 1)}"]
    elif kind == 5:
        # a stream CLONED from the wildcard template is re-keyed by an explicit policy for its SSRC: the clone shares the template's
        # cipher / auth / limit objects, which must survive its replacement (other clones and the template go on using them)
        ops = ["create 1 2", pkt_op("protect", 1, pk(5, 1), extra=40), pkt_op("protect", 1, pk(6, 1), extra=40),
               "stream_update 1 9" if mki or True else "update 1 9", pkt_op("protect", 1, pk(5, 2), extra=40), pkt_op("protect", 1, pk(6, 2), extra=40),
               pkt_op("protect", 1, pk(7, 1), extra=40), "update 1 9", "update 1 8", pkt_op("protect", 1, pk(6, 3), extra=40)]
    else:
        ops = ["create 1", "add 1 2", "add 1 1", "add 1 4"] + [pkt_op("protect", 1, pk(100 + i, 1), extra=40) for i in range(4)] + ["update 1 8"]
    L = list(P)
    L.append("heap")
    for i, o in enumerate(ops):
        if kind == 2 and o.startswith("unprotect"):
            o = pkt_op("unprotect", 2, "@%x" % (len(L) - (1 if fail_op != i else 2) + 0), cap=200)
        if fail_op == i:
            L.append(f"failnth {H(fail_at)}")
            if kind == 2 and o.startswith("unprotect"):
                o = pkt_op("unprotect", 2, "@%x" % (len(L) - 2), cap=200)
        L.append(o)
        L.append("heap")
    L += ["dealloc 1", "dealloc 2", "heap"]
    return "\n".join(L) + "\n", len(ops)


def monitor(script, c):
    hits = []
    out = [l.split() for l in c if l.strip()]
    heaps = [o for o in out if len(o) > 2 and o[1] == "heap"]
    if not heaps:
        return hits
    last = heaps[-1]
    live = int(last[2], 16)
    if live != 0:
        hits.append({"what": f"{live} heap blocks still allocated after every session was deallocated",
                     "signature": "leak-after-dealloc:" + leak_site(script, c), "detail": f"final heap line: {' '.join(last)}"})
    # a failed call must report an error: look for an op following failnth whose heap line shows a failed attempt
    return hits


def leak_site(script, c):
    """name the first operation after which the live count exceeds what the model-independent rule allows:
    a call that returns an error must not increase the live count"""
    out = [l.split() for l in c if l.strip()]
    prev_live = None
    for i, o in enumerate(out):
        if len(o) > 2 and o[1] == "heap":
            live = int(o[2], 16)
            if prev_live is not None and i > 0:
                p = out[i - 1]
                if len(p) > 2 and p[1] in ("create", "add", "update", "stream_update", "remove") and int(p[2], 16) != 0 and live > prev_live:
                    return f"{p[1]}-status-{p[2]}"
            prev_live = live
    return "?"


# after the re-initialisation an ordinary session must work
init_tail = policy_line(1) + "\ncreate 1 1\n" + pkt_op("protect", 1, rtp_packet(0xcafebabe, 1, payload=b"abcd"), extra=40) + "\ndealloc 1\nheap\n"


def init_monitor(script, c):
    hits = []
    for l in c:
        t = l.split()
        if len(t) > 5 and t[1] == "reinit":
            st1, st2, leaked, st3 = (int(x, 16) if not x.startswith("-") else -int(x[1:], 16) for x in t[2:6])
            if leaked != 0:
                hits.append({"what": "blocks obtained by srtp_init remain allocated after srtp_shutdown (an allocation inside srtp_init had failed)" if st1 else
                                     "blocks obtained by srtp_init remain allocated after srtp_shutdown",
                             "signature": "init-leak", "detail": l}); break
            if st3 != 0:
                hits.append({"what": "the library cannot be brought up again after a failed srtp_init + srtp_shutdown", "signature": "init-stuck", "detail": l}); break
        if len(t) > 2 and t[1] in ("create", "protect", "dealloc") and int(t[2], 16) != 0:
            hits.append({"what": "session does not work after the library was re-initialised", "signature": "init-after", "detail": l}); break
    return hits


def families(tier, seed, ctx):
    """every allocation of every operation is failed once: the number of allocations an operation makes is read off
    the implementation's own run of the failure-free script (heap lines: live, attempts since the last heap line, ...)"""
    from lib import vlib
    rng = random.Random(seed * 1000 + 17)
    scripts = []
    variants = [0] if tier == "quick" else [0, 1, 2]
    for v in variants:
        for k in range(6):
            sd = seed * 77 + k + 1000 * v
            txt, nops = lifecycle(random.Random(sd), kind=k)
            scripts.append((f"life-{k}-v{v}", txt))
            c, _, rc = vlib.run_c(ctx["cdir"], txt)
            heaps = [l.split() for l in c if len(l.split()) > 2 and l.split()[1] == "heap"]
            # heaps[0] precedes the first op; heaps[i+1] follows op i
            for op in range(nops):
                att = int(heaps[op + 1][3], 16) if rc == 0 and len(heaps) > op + 1 else 14
                for n in range(1, min(att, 80) + 1):
                    t2, _ = lifecycle(random.Random(sd), fail_at=n, fail_op=op, kind=k)
                    scripts.append((f"fail-k{k}-v{v}-op{op}-n{n}", t2))
    # srtp_init / srtp_shutdown themselves: the crypto kernel links ~24 list nodes (debug modules, cipher and auth types) one by one;
    # each allocation is failed once, srtp_shutdown must hand everything back and a later srtp_init must work.  Observed on the
    # implementation only (the kernel's registry is not part of the Gallina model): model=False
    init_scripts = [(f"init-fail-{n}", f"reinit {n:x}\n" + init_tail) for n in range(0, 41)]
    return [Family("lifecycle-failnth", scripts, monitor=monitor),
            Family("library-bring-up-failnth", init_scripts, monitor=init_monitor, model=False)]
