"""C03 — wire format equals RFC 3711 / 6188 / 6904 for every packet."""
import random
from lib.engine import Family
from lib import vlib
from lib.gen import *
from lib.apigen import *

THEOREMS = ["ctr_keystream_cm", "rtp_iv_spec", "rtcp_iv_spec", "cipher_encrypt_spec_k", "kdf_generate_spec", "derive_keys_spec_128", "derive_keys_spec_256", "session_rtp_encrypt", "session_rtcp_encrypt", "session_xtn_encrypt", "kdf_boundary_differs"]
TRUSTED_BASE = ["Coq 8.16.1 kernel", "tools/gen_constants.py", "extraction (ExtrOcamlBasic) + harness/mdrv.ml",
                "coq/Spec/Rfc3711.v: my transcription of RFC 3711 4.1.1/4.2/4.3/3.4, RFC 6188, RFC 6904 over Gallina AES / HMAC-SHA1; "
                "validated by the RFC 3711 B.2 (AES-CM keystream) and B.3 (key derivation) vectors as Coq Examples",
                "harness/cdrv*.c driving libsrtp (ASan/UBSan)",
                "modelled not verified: srtp/srtp.c, aes_icm.c, hmac.c"]
ASSUMPTIONS = ["internal crypto backend: AES-GCM (RFC 7714) and AES-192 are not compiled in and are not compared by the quick tier",
               "RFC 9335 (cryptex) has no independent specification here: cryptex policies are covered by the round trip (C01) and by model = implementation only",
               "RFC 6904: positional keystream mask as I read section 4 (see DESIGN.md, finding F8a)"]


def split_key(cipher, key):
    if cipher == ICM256:
        return key[:32], key[32:46]
    if cipher == ICM192:
        return key[:24], key[24:38]
    return key[:16], key[16:30]


def build(rng, tier, ctx, padding_case=False, ciphers=None, n=None, shape_case=False):
    """returns list of (name, script) — spec packets are computed by the extracted specification in a first pass"""
    n = n or (16 if tier == "quick" else 160)
    plans = []
    spec_lines = []
    for k in range(n):
        ssrc = rng.randrange(2, 1 << 32)
        cipher = rng.choice([ICM128, ICM128, ICM256, NULL_CIPHER]) if not (padding_case or shape_case) else rng.choice([ICM128, ICM256])
        if ciphers:
            cipher = rng.choice(ciphers)
        klen = 46 if cipher == ICM256 else (38 if cipher == ICM192 else 30)
        serv = rng.choice([3, 3, 2, 1]) if not padding_case else 3
        tag = rng.choice([4, 10, 10, 16])
        auth = HMAC
        use_mki = rng.random() < 0.3
        keys = [(rand_key(rng, klen), bytes([i, 0x55, 3, 4]) if use_mki else b"") for i in range(2 if use_mki else 1)]
        ids = bytes(rng.sample(range(1, 15), 2)) if (padding_case or shape_case or rng.random() < 0.3) and cipher != NULL_CIPHER else b""
        rtag = tag if serv & 2 else 0        # no authentication service: no tag (as the library's own policy helpers set it)
        p = default_policy(rng, ssrc, rtp=cp(cipher=cipher, keylen=klen, taglen=rtag, serv=serv), rtcp=cp(cipher=cipher, keylen=klen, taglen=tag, serv=serv | 2),
                           keys=keys, use_mki=use_mki, mki_size=4 if use_mki else 0, use_key_field=not use_mki, enc_xtn=ids)
        roc = [1, 0, 3, 0x10000, 0, 0x7fffffff, 1][k % 7]
        seq = [1, 2, 1000, 65535, 40000][k % 5]
        rtcp_idx = rng.choice([1, 2, 300, 0x10000, 0x12345678])
        items = []
        for j in range(5):
            ki = rng.randrange(len(keys))
            mkey, msalt = split_key(cipher, keys[ki][0])
            conf = (1 if serv & 1 else 0) | (2 if cipher == NULL_CIPHER else 0)
            late_idx = ((roc << 16) | seq) - 2
            if j == 3 and (late_idx < 0 or padding_case or shape_case):
                continue
            if j == 3:
                # a LATE packet on the sender: the index just before the ones sent so far (never sent; when seq is 1 it lies before
                # the sequence-number wrap, i.e. under the previous ROC): IV and authenticated ROC are those of ITS index
                pkt = rtp_packet(ssrc, late_idx & 0xffff, payload=rand_key(rng, rng.choice([0, 16, 33])), cc=rng.choice([0, 1]))
                r = late_idx >> 16
                spec_lines.append(f"spec_rtp {conf} {1 if serv & 2 else 0} {H(rtag)} {H(r)} | {mkey.hex()} {msalt.hex()} {hexb(keys[ki][1])} {hexb(ids)} {pkt.hex()}")
                items.append(("rtp", pkt, ki, r, len(spec_lines) - 1))
                continue
            if j < 3:
                if shape_case:
                    # RFC 6904 element shapes without inner padding (so the known finding about padding is not involved): elements
                    # WITHOUT data (two-byte form allows length 0) before / between / after encrypted ones, listed and unlisted
                    # ids interleaved, maximal one-byte elements; the keystream is positional over the whole extension block
                    other = rng.choice([x for x in range(1, 15) if x not in ids])
                    two = [[(ids[0], b""), (ids[1], rand_key(rng, 3))],
                           [(other, b""), (ids[0], rand_key(rng, 4)), (ids[1], b"")],
                           [(ids[0], rand_key(rng, 1)), (ids[1], b""), (other, rand_key(rng, 2)), (ids[0], rand_key(rng, 5))],
                           [(other, rand_key(rng, 7)), (ids[1], rand_key(rng, 31))]]
                    one = [[(ids[0], rand_key(rng, 1)), (other, rand_key(rng, 16)), (ids[1], rand_key(rng, 16))],
                           [(other, rand_key(rng, 3)), (ids[0], rand_key(rng, 4)), (other, rand_key(rng, 2)), (ids[1], rand_key(rng, 2))]]
                    ext = two_byte_ext(two[(k + j) % 4], appbits=rng.choice([0, 5])) if (k + j) % 3 != 2 else one_byte_ext(one[(k + j) % 2])
                elif padding_case:
                    el = [(ids[0], rand_key(rng, 3)), (rng.choice([x for x in range(1, 15) if x not in ids]), rand_key(rng, 2)), (ids[1], rand_key(rng, 4))]
                    ext = one_byte_ext(el, pad_between=rng.choice([1, 2])) if j != 1 else two_byte_ext(el, pad_between=1)
                else:
                    ext = rand_ext(rng, list(ids) or None) if rng.random() < 0.5 else None
                    if ext is not None and ext[0] not in (0xBEDE, 0x1000, 0x1005) and ids:
                        ext = None
                    if ext is not None and ids and b"\x00" in b"":
                        ext = None
                paylen = rng.choice([0, 1, 16, 33, 200, 4096, 4097, 5000] if j == 0 else [0, 1, 15, 16, 17, 100])
                pkt = rtp_packet(ssrc, (seq + j) & 0xffff, payload=rand_key(rng, paylen), cc=rng.choice([0, 0, 2]), ext=ext)
                r = roc + ((seq + j) >> 16)
                spec_lines.append(f"spec_rtp {conf} {1 if serv & 2 else 0} {H(rtag)} {H(r)} | {mkey.hex()} {msalt.hex()} {hexb(keys[ki][1])} {hexb(ids)} {pkt.hex()}")
                items.append(("rtp", pkt, ki, r, len(spec_lines) - 1))
            else:
                body = rand_key(rng, rng.choice([0, 4, 20, 100, 4200]))
                pkt = rtcp_packet(ssrc, body)
                spec_lines.append(f"spec_rtcp {conf} 1 {H(tag)} {H(rtcp_idx)} | {mkey.hex()} {msalt.hex()} {hexb(keys[ki][1])} - {pkt.hex()}")
                items.append(("rtcp", pkt, ki, rtcp_idx, len(spec_lines) - 1))
        plans.append((p, ssrc, roc, seq, rtcp_idx, items, ids))
    # first pass: the specification's packets
    ml, merr, mrc = vlib.run_m(ctx["qdir"], "\n".join(spec_lines) + "\n", timeout=1200)
    spec_out = {}
    for l in ml:
        t = l.split()
        if len(t) >= 5 and t[1].startswith("spec_"):
            spec_out[int(t[0]) - 1] = t[4]
    scripts = []
    for k, (p, ssrc, roc, seq, rtcp_idx, items, ids) in enumerate(plans):
        L = [p.line(1), "create 1 1", "create 2 1"]
        start = ((roc << 16) | seq) - 1
        if start > 0:
            L.append(f"poke_index 1 0 {H(ssrc)} {H(start)}"); L.append(f"poke_index 2 0 {H(ssrc)} {H(start)}")
        L.append(f"poke_rtcp 1 0 {H(ssrc)} {H(rtcp_idx - 1)}")
        if rtcp_idx > 200:
            L.append(f"poke_rtcp 2 0 {H(ssrc)} {H(rtcp_idx - 100)}")
        for (kind, pkt, ki, r, sl) in items:
            want = spec_out.get(sl)
            if want is None:
                continue
            op = "protect" if kind == "rtp" else "protect_rtcp"
            uop = "unprotect" if kind == "rtp" else "unprotect_rtcp"
            L.append(pkt_op(op, 1, pkt, extra=200, mki_index=ki if p.use_mki else 0))
            L.append(f"# W {want}")
            # conversely: the specification's packet is accepted and decoded by the library
            L.append(pkt_op(uop, 2, bytes.fromhex(want) if want != "-" else b"", cap=len(pkt) + 200, mode=rng.choice([0, 1])))
            L.append(f"# X {pkt.hex()}")
        L += ["dealloc 1", "dealloc 2"]
        scripts.append((("pad-" if padding_case else ("shape-" if shape_case else "wire-")) + str(k), "\n".join(L) + "\n"))
    return scripts


def has_pad_before_encrypted(pkt, ids):
    """RFC 8285 walk of the plaintext extension: is there a padding octet followed by an element that RFC 6904 encrypts?"""
    cc = pkt[0] & 15
    h = 12 + 4 * cc
    prof = int.from_bytes(pkt[h:h + 2], "big")
    d = pkt[h + 4:h + 4 + 4 * int.from_bytes(pkt[h + 2:h + 4], "big")]
    i = 0
    pad_seen = False
    while i < len(d):
        if d[i] == 0:
            pad_seen = True; i += 1; continue
        if prof == 0xBEDE:
            eid, ln = d[i] >> 4, (d[i] & 15) + 1
            if eid == 15: break
            i += 1
        elif prof & 0xfff0 == 0x1000:
            if i + 1 >= len(d): break
            eid, ln = d[i], d[i + 1]
            i += 2
        else:
            return False
        if pad_seen and eid in ids and ln > 0:
            return True
        i += ln
    return False


def monitor(script, c):
    hits = []
    sl = script.split("\n")
    out = {int(l.split()[0]): l.split() for l in c if l.strip()}
    ids = sl[0].split("|")[1].split()[0]
    aes192 = int(sl[0].split()[5], 16) == 38      # AES-ICM-192 policy (key length 38): exists in the OpenSSL configuration only
    for i, l in enumerate(sl, 1):
        t = l.split()
        if len(t) < 3 or t[0] != "#":
            continue
        o = out.get(i - 1, [])
        if len(o) < 5:
            continue
        if aes192 and t[1] in ("W", "X") and ((t[1] == "W" and int(o[2], 16) == 0 and o[4] != t[2]) or (t[1] == "X" and (int(o[2], 16) != 0 or o[4] != t[2]))):
            # every AES-192 packet differs from the RFC 6188 specification in the same way: the session keys are derived with
            # an AES-256 KDF over the zero-padded master key
            if not any(h["signature"] == "aes192-kdf-not-rfc6188" for h in hits):
                hits.append({"what": "AES-192 policy: packets differ from RFC 3711 / RFC 6188 (session keys derived with an AES-256 key derivation)",
                             "signature": "aes192-kdf-not-rfc6188", "detail": f"line {i-1}"})
            continue
        if t[1] == "W":
            if int(o[2], 16) == 0 and o[4] != t[2]:
                a, b = o[4], t[2]
                pos = next((j // 2 for j in range(0, min(len(a), len(b)), 2) if a[j:j + 2] != b[j:j + 2]), min(len(a), len(b)) // 2)
                sig = "wire-differs:" + o[1]
                pkt = bytes.fromhex(sl[i - 2].split("|")[1].strip())
                if o[1] == "protect" and ids != "-" and (pkt[0] >> 4) & 1:
                    cc = pkt[0] & 15
                    h = 12 + 4 * cc
                    xlen = 4 * int.from_bytes(pkt[h + 2:h + 4], "big")
                    if h + 4 <= pos < h + 4 + xlen and has_pad_before_encrypted(pkt, bytes.fromhex(ids)):
                        sig = "rfc6904-keystream-not-positional"
                hits.append({"what": "bytes emitted differ from the RFC specification", "signature": sig,
                             "detail": f"line {i-1}: first difference at octet {pos} (len {len(a)//2} vs {len(b)//2})"})
                if sig != "rfc6904-keystream-not-positional":
                    return hits
        elif t[1] == "X":
            pw = out.get(i - 3, [])
            if len(pw) > 2 and int(pw[2], 16) != 0:
                continue       # srtp_protect itself refuses this plaintext (e.g. an extension block the RFC 6904 walk cannot parse): not comparable
            if int(o[2], 16) != 0:
                if ids != "-" and any(h["signature"] == "rfc6904-keystream-not-positional" for h in hits):
                    continue       # same packet as the known RFC 6904 deviation above
                hits.append({"what": "a packet built by the RFC specification is rejected", "signature": "spec-packet-rejected:" + o[1],
                             "detail": f"line {i-1}: status {o[2]}"}); return hits
            elif o[4] != t[2]:
                if ids != "-" and any(h["signature"] == "rfc6904-keystream-not-positional" for h in hits):
                    continue
                hits.append({"what": "a packet built by the RFC specification is decoded to different bytes", "signature": "spec-packet-misdecoded:" + o[1],
                             "detail": f"line {i-1}"}); return hits
    return hits


# ---- AES-GCM (RFC 7714): the known-answer packets the repo's own driver carries (test/srtp_driver.c, srtp_validate_gcm),
# i.e. the RFC 7714 section 16 / 17 examples for AEAD_AES_128_GCM; checked on the implementation built against OpenSSL
GCM_KEY = bytes(range(16)) + bytes(range(0xa0, 0xac))
GCM_RTP_PLAIN = bytes.fromhex("800f1234decafbadcafebabe" + "ab" * 16)
GCM_SRTP = bytes.fromhex("800f1234decafbadcafebabec5002ede04cfdd2eb91159e0880aa06ed2976826f796b201df3131a127e8a392")
GCM_RTCP_PLAIN = bytes.fromhex("81c8000bcafebabe" + "ab" * 16)
GCM_SRTCP = bytes.fromhex("81c8000bcafebabec98b8b5df0392a55852b6c21ac8e7025c52c6fbea2b3b446ea31123ba88ce61e80000001")


def gcm_kat_scripts():
    g = gcm_cp(128, 16, 3)
    p = default_policy(random.Random(7714), 0xcafebabe, rtp=g, rtcp=g, keys=[(GCM_KEY, b"")])
    out = []
    for mode in (0, 1):
        L = [p.line(1), "create 1 1", "create 2 1", "create 3 1"]
        L.append(pkt_op("protect", 1, GCM_RTP_PLAIN, cap=len(GCM_SRTP), mode=mode)); L.append(f"# KAT {GCM_SRTP.hex()}")
        L.append(pkt_op("unprotect", 2, GCM_SRTP, cap=len(GCM_SRTP), mode=mode)); L.append(f"# KAT {GCM_RTP_PLAIN.hex()}")
        L.append(pkt_op("protect_rtcp", 1, GCM_RTCP_PLAIN, cap=len(GCM_SRTCP), mode=mode)); L.append(f"# KAT {GCM_SRTCP.hex()}")
        L.append(pkt_op("unprotect_rtcp", 2, GCM_SRTCP, cap=len(GCM_SRTCP), mode=mode)); L.append(f"# KAT {GCM_RTCP_PLAIN.hex()}")
        L += ["dealloc 1", "dealloc 2", "dealloc 3"]
        out.append((f"rfc7714-kat-mode{mode}", "\n".join(L) + "\n"))
    return out


def kat_monitor(script, c):
    hits = []
    sl = script.split("\n")
    out = {int(l.split()[0]): l.split() for l in c if l.strip()}
    for i, l in enumerate(sl, 1):
        t = l.split()
        if len(t) > 2 and t[0] == "#" and t[1] == "KAT":
            o = out.get(i - 1, [])
            if len(o) < 5 or o[2] != "0" or o[4] != t[2]:
                hits.append({"what": "AES-GCM packet differs from the RFC 7714 known-answer vector", "signature": "rfc7714-kat:" + (o[1] if len(o) > 1 else "?"),
                             "detail": f"line {i-1}: status {o[2] if len(o) > 2 else '?'} got {o[4][:90] if len(o) > 4 else '-'} expected {t[2][:90]}"})
                break
    return hits


# ---- the crypto suites as the library's helper functions define them, against the parameters the RFCs give
# (RFC 3711 8.2 / RFC 4568 6.2: AES_CM_128_HMAC_SHA1_80 / _32, F8 not supported; RFC 6188: AES_192_CM / AES_256_CM; RFC 7714 14.2:
# AEAD_AES_128_GCM / AEAD_AES_256_GCM with a 16-octet tag and a 12-octet salt): cipher id, key+salt length, auth id, auth key length,
# tag length.  sec_serv: confidentiality + authentication for the full suites, confidentiality only for *_null_auth, authentication
# only for null_cipher_hmac_sha1_80, none for null_cipher_hmac_null.
RFC_SUITES = {
    0: (ICM128, 30, HMAC, 20, 10, 3), 1: (ICM128, 30, HMAC, 20, 10, 3), 2: (ICM128, 30, HMAC, 20, 4, 3), 3: (ICM128, 30, NULL_AUTH, 0, 0, 1),
    4: (NULL_CIPHER, 30, HMAC, 20, 10, 2), 5: (NULL_CIPHER, 30, NULL_AUTH, 0, 0, 0),
    6: (ICM256, 46, HMAC, 20, 10, 3), 7: (ICM256, 46, HMAC, 20, 4, 3), 8: (ICM256, 46, NULL_AUTH, 0, 0, 1),
    9: (ICM192, 38, HMAC, 20, 10, 3), 10: (ICM192, 38, HMAC, 20, 4, 3), 11: (ICM192, 38, NULL_AUTH, 0, 0, 1),
    12: (GCM128, 28, NULL_AUTH, 0, 16, 3), 13: (GCM256, 44, NULL_AUTH, 0, 16, 3),
}
# srtp_profile_t -> (setter for RTP, setter for RTCP, master key length, master salt length); RFC 3711: SRTCP always carries the
# 80-bit tag, so the _32 profile maps to the _80 suite for RTCP
RFC_PROFILES = {1: (0, 0, 16, 14), 2: (2, 0, 16, 14), 5: (4, 4, 16, 14), 7: (12, 12, 16, 12), 8: (13, 13, 32, 12)}


def suites_script(gcm):
    L = [f"stdpol {n:x}" for n in range(15)]
    for prof in range(0, 10):
        L += [f"profpol {prof:x} 0", f"profpol {prof:x} 1", f"proflen {prof:x}"]
    return [("std-suites" + ("-gcm" if gcm else ""), "\n".join(L) + "\n")]


def suites_monitor(gcm):
    def mon(script, c):
        hits = []
        sl = script.split("\n")
        out = {int(l.split()[0]): [int(x, 16) for x in l.split()[2:]] for l in c if l.strip()}
        for i, l in enumerate(sl, 1):
            t = l.split()
            if not t:
                continue
            o = out.get(i, [])
            if t[0] == "stdpol":
                n = int(t[1], 16)
                want = RFC_SUITES.get(n)
                got = tuple(o[1:7]) if o and o[0] == 0 else None
                if (want is None) != (got is None) or (want is not None and got != want):
                    hits.append({"what": "a crypto-suite helper (srtp_crypto_policy_set_*) does not set the parameters the RFCs give for that suite",
                                 "signature": f"suite-params:{n}", "detail": f"setter #{n}: got {got} expected {want}"}); break
            elif t[0] == "profpol":
                prof, rtcp = int(t[1], 16), int(t[2], 16)
                known = prof in RFC_PROFILES and (prof < 7 or gcm)
                want = RFC_SUITES[RFC_PROFILES[prof][1 if rtcp else 0]] if known else None
                got = tuple(o[1:7]) if o and o[0] == 0 else None
                if got != want:
                    hits.append({"what": "srtp_crypto_policy_set_from_profile_for_rtp / _rtcp does not give the suite of the profile",
                                 "signature": f"profile-params:{prof}:{rtcp}", "detail": f"got {got} expected {want}"}); break
            elif t[0] == "proflen":
                prof = int(t[1], 16)
                want = RFC_PROFILES[prof][2:] if prof in RFC_PROFILES else (0, 0)
                if tuple(o[:2]) != tuple(want):
                    hits.append({"what": "srtp_profile_get_master_key_length / _salt_length differ from the profile's key and salt sizes",
                                 "signature": f"profile-lengths:{prof}", "detail": f"got {o[:2]} expected {want}"}); break
        return hits
    return mon


def families(tier, seed, ctx):
    rng = random.Random(seed * 1000 + 3)
    return [Family("wire-vs-rfc", build(rng, tier, ctx), monitor=monitor),
            Family("rfc6904-inner-padding", build(rng, "quick", ctx, padding_case=True)[:6], monitor=monitor),
            Family("rfc6904-element-shapes", build(random.Random(seed * 1000 + 303), tier, ctx, shape_case=True, n=(8 if tier == "quick" else 60)), monitor=monitor),
            Family("standard-suites", suites_script(False), monitor=suites_monitor(False)),
            Family("standard-suites-openssl", suites_script(True), monitor=suites_monitor(True), config="openssl"),
            Family("rfc7714-vectors", gcm_kat_scripts(), monitor=kat_monitor, config="openssl"),
            # GCM-128 for one half of the policy and GCM-256 for the other: the session salts / keys of each half come from ITS key
            # length (the model's AEAD IVs are proved equal to Spec/Rfc7714.v; the model is compared with the library here)
            Family("gcm-mixed-key-sizes", with_aead(__import__("lib.props.C02", fromlist=["x"]).scripts, random.Random(seed * 1000 + 403), tier,
                                                    n=(6 if tier == "quick" else 40), aead_mix=True) +
                                          with_aead(__import__("lib.props.C01", fromlist=["x"]).scripts, random.Random(seed * 1000 + 503), tier,
                                                    n=(4 if tier == "quick" else 30), aead_mix=True),
                   monitor=None, config="openssl"),
            # the OpenSSL back end's AES-ICM / HMAC glue (aes_icm_ossl.c, hmac_ossl.c) and AES-192 (RFC 6188), which only that
            # configuration has, against the same RFC specification
            Family("wire-vs-rfc-openssl", [("corpus-aes192", build(random.Random(6188), "quick", ctx, ciphers=[ICM192], n=1)[0][1])] +
                   build(random.Random(seed * 1000 + 103), tier, ctx, ciphers=[ICM128, ICM256, ICM192, ICM192], n=(8 if tier == "quick" else 100)),
                   monitor=monitor, config="openssl")]
