"""C13 — rejected input leaves the receiving session unchanged."""
import random
from lib.engine import Family
from lib.gen import *
from lib.apigen import *

THEOREMS = ["reject_is_noop"]
TRUSTED_BASE = ["Coq 8.16.1 kernel", "tools/gen_constants.py", "extraction (ExtrOcamlBasic) + harness/mdrv.ml",
                "harness/cdrv*.c (peek of replay windows / ROC / SRTCP index / pending ROC / direction / key budget through srtp_priv.h, stream count, live heap blocks)",
                "modelled not verified: order of effects in srtp_unprotect / srtp_unprotect_rtcp"]
ASSUMPTIONS = ["key_expired and allocation failure after authentication are not 'rejected input' (they consume budget by design)",
               "internal crypto configuration (ICM paths)"]


def scenario(rng, k, tier):
    wildcard = (rng.random() < 0.5 if k % 3 == 2 else False) if k % 3 else (k % 6 == 0)      # k mod 3 = 1: explicit streams with a set_roc jump (below)
    ssrcs = [rng.randrange(2, 1 << 32) for _ in range(3)]
    p = rand_policy(rng, ssrc=ssrcs[0], valid=True, allow_cryptex=False)
    if k % 3 == 0 and not p.enc_xtn:
        p.enc_xtn = bytes(rng.sample(range(1, 15), 2))      # every third scenario has RFC 6904 ids: the authentic-but-refused packets below need them
    aead = p.rtp[0] in (GCM128, GCM256)              # AES-GCM always authenticates (tag 16 or 8)
    if not aead:
        if p.rtp[5] & 2 == 0 or p.rtp[4] == 0 or p.rtp[2] != HMAC:
            p.rtp = p.rtp[:2] + (HMAC, 20, 10, 3)         # the property is about authenticated streams
        if p.rtp[4] < 4:
            p.rtp = p.rtp[:4] + (10,) + p.rtp[5:]
        if p.rtcp[4] < 4 or p.rtcp[2] != HMAC:
            p.rtcp = p.rtcp[:2] + (HMAC, 20, 10, 3)
    L = []
    if wildcard:
        L += [p.line(1, ssrc_type=SSRC_ANY_OUT), p.line(2, ssrc_type=SSRC_ANY_IN), "create 1 1", "create 2 2", "create 3 2"]
    else:
        L += [p.line(1), "create 1 1", "create 2 1", "create 3 1"]
        ssrcs = ssrcs[:1]
    # a second sender with the same keys but WITHOUT RFC 6904 ids: its packets authenticate at the receiver, whose RFC 6904
    # step then refuses extension profiles it does not know (parse_err AFTER authentication; only the key budget may move)
    ra_ok = bool(p.enc_xtn)
    if ra_ok:
        L.append(p.line(3, ssrc_type=SSRC_ANY_OUT if wildcard else SSRC_SPECIFIC, enc_xtn=b""))
    seq = {s: rng.choice([1, 65530]) for s in ssrcs}
    goodlines = []
    def snapshot(tag):
        for s in ssrcs:
            L.append(f"peek 2 0 {H(s)}")
        L.append("peek 2 1 0"); L.append("nstreams 2"); L.append("heap"); L.append(f"# S {tag} {len(ssrcs)+3:x}")
    roc_jump_at = rng.choice([2, 4, 7]) if (rng.random() < 0.6 or k % 3 == 1) else -1
    force = None
    for step in range(12 if tier == "quick" else 60):
        s = rng.choice(ssrcs)
        if step == roc_jump_at and not wildcard:
            # the application imposes a rollover counter on all three sessions; rejected packets that arrive
            # before the next authentic one must not disturb it
            r = (seq[s] >> 16) + rng.choice([1, 2, 5])
            for sid in (1, 2, 3):
                L.append(f"setroc {sid} {H(s)} {H(r)}")
            seq[s] = (r << 16) | (seq[s] & 0xffff)
            force = s
        rtcp = rng.random() < 0.3
        pkt = rand_rtcp(rng, s) if rtcp else rand_rtp(rng, s, seq[s] & 0xffff, ext_ok=False)
        if not rtcp: seq[s] += rng.choice([1, 1, 2])
        mi = rng.randrange(len(p.keys)) if p.use_mki else 0
        op, uop = ("protect_rtcp", "unprotect_rtcp") if rtcp else ("protect", "unprotect")
        L.append(pkt_op(op, 1, pkt, cap=len(pkt) + 200, mki_index=mi)); a = len(L)
        goodlines.append((a, rtcp, len(pkt) + p.trailer(not rtcp), s))
        # rejected packets go to session 2 only, before and after the valid one
        forced = [g for g in goodlines[:-1] if g[3] == force and not g[1]] if (force is not None and not rtcp and s == force) else []
        for inj in range(max(rng.choice([0, 1, 2]), 1 if forced else 0)):
            snapshot("b")
            src, r_rtcp, tot, ss = rng.choice(goodlines)
            w = rng.randrange(7)
            rcap = 400
            if forced and inj == 0:
                # a tampered packet of this very stream right after srtp_stream_set_roc, before the first authentic one
                src, r_rtcp, tot, ss = forced[-1]
                w = 0
                force = None
            if w == 0: ref = f"@{src:x}~{rng.randrange(8 * tot):x}"
            elif w == 1: ref = f"@{src:x}<{rng.randrange(0, tot):x}"
            elif w == 2: ref = hexb(rand_key(rng, rng.choice([0, 5, 12, 30, 60])))
            elif w == 3: ref = hexb(rtp_packet(rng.randrange(1 << 32), 7, payload=rand_key(rng, 30)))
            elif w == 4: ref = f"@{src:x}" if src != a else hexb(rand_key(rng, 20))     # replay of an older packet (maybe)
            elif w == 6:
                # the authentic packet just made, but into an output buffer that is too small (refused AFTER authentication)
                src, r_rtcp, tot, ss = goodlines[-1]; ref = f"@{src:x}"; rcap = rng.choice([0, 8, 12, tot - p.trailer(not r_rtcp) - 1])
            else: ref = f"@{src:x}+{rand_key(rng, rng.choice([1, 4, 10])).hex()}"
            L.append(pkt_op("unprotect_rtcp" if r_rtcp else "unprotect", 2, ref, cap=max(rcap, 0), mode=rng.choice([1, 2] if w == 6 else [0, 1])))
            L.append("# R")
            snapshot("a")
        if ra_ok and not rtcp and rng.random() < 0.5 and (not wildcard or (seq[s] >> 16) == 0):
            L.append("dealloc 4"); L.append("create 4 3")
            if seq[s] >> 16:
                L.append(f"setroc 4 {H(s)} {H(seq[s] >> 16)}")
            # under a wildcard policy the refused packet may also be the FIRST packet of an SSRC the receiver has no stream for:
            # the call fails, so no stream may exist afterwards
            s_bad = (s ^ 0x5a5a0000 ^ len(L)) if (wildcard and rng.random() < 0.6) else s
            bad = rtp_packet(s_bad, seq[s] & 0xffff, payload=rand_key(rng, 9), cc=rng.choice([0, 2]),
                             ext=(rng.choice([0x1234, 0xABCD, 0xBEDF]), rand_key(rng, 4 * rng.choice([0, 1, 3]))))
            L.append(pkt_op("protect", 4, bad, cap=len(bad) + 200, mki_index=mi)); ra = len(L)
            snapshot("b")
            L.append(pkt_op("unprotect", 2, f"@{ra:x}", cap=400, mode=rng.choice([0, 1])))
            L.append("# RA")
            snapshot("a")
        m = rng.choice([0, 1])
        L.append(pkt_op(uop, 2, f"@{a:x}", cap=len(pkt) + 200, mode=m)); x = len(L)
        L.append(pkt_op(uop, 3, f"@{a:x}", cap=len(pkt) + 200, mode=m)); y = len(L)
        L.append(f"# T {x:x} {y:x}")
    for s in ssrcs:
        L.append(f"peek 2 0 {H(s)}"); L.append(f"peek 3 0 {H(s)}"); L.append("# E")
    L += ["nstreams 2", "nstreams 3", "# E", "dealloc 1", "dealloc 2", "dealloc 3"]
    return "\n".join(L) + "\n"


def monitor(script, c):
    hits = []
    sl = script.split("\n")
    out = {int(l.split()[0]): l.split() for l in c if l.strip()}
    snap = {}
    rejected_status = None
    has_ra = any(l.startswith("# RA") for l in sl)
    def mask(rows):
        # peek rows: ... direction, key budget, key state: the budget is charged once a packet has authenticated, also when a
        # later step (RFC 6904 parse) still refuses it; everything else the property names must not move
        return [r[:8] + r[10:] if len(r) > 9 else r for r in rows]
    ra_pending = False
    for i, l in enumerate(sl, 1):
        t = l.split()
        if len(t) < 2 or t[0] != "#":
            continue
        if t[1] == "S":
            n = int(t[3], 16)
            cur = [out.get(j, [])[2:] for j in range(i - n, i)]
            # drop heap's per-interval counters, keep live
            cur[-1] = cur[-1][:1]
            if t[2] == "b":
                snap["b"] = cur
            else:
                if ra_pending:
                    cur, snap["b"] = mask(cur), mask(snap.get("b", []))
                    ra_pending = False
                if rejected_status not in (None, 0) and "b" in snap and cur != snap["b"]:
                    d = [(x, y) for x, y in zip(snap["b"], cur) if x != y][0]
                    what = "a rejected packet changed the receiving session"
                    sig = "reject-changes-state"
                    if len(d[0]) == 2 and len(d[1]) == 2:
                        what, sig = "a rejected packet created or removed a stream", "reject-changes-streams"
                    elif len(d[0]) == 1:
                        what, sig = "a rejected packet changed the amount of memory held", "reject-changes-memory"
                    hits.append({"what": what + f" (status {rejected_status:x})", "signature": sig,
                                 "detail": f"line {i}: before {str(d[0])[:160]} after {str(d[1])[:160]}"})
                    return hits
        elif t[1] == "RA":
            o = out.get(i - 1, [])
            rejected_status = int(o[2], 16) if len(o) > 2 else None
            ra_pending = True
            if rejected_status == 0:
                return hits
        elif t[1] == "R":
            o = out.get(i - 1, [])
            rejected_status = int(o[2], 16) if len(o) > 2 else None
            if rejected_status == 0:
                return hits        # the injected packet authenticated (replay of a not-yet-delivered packet): no longer a twin
            if rejected_status == 0xf:
                rejected_status = None
        elif t[1] == "T":
            a, b = out.get(int(t[2], 16), []), out.get(int(t[3], 16), [])
            if a[2:5] != b[2:5]:
                hits.append({"what": "session that saw rejected packets behaves differently from its twin on later valid traffic",
                             "signature": "twin-diverges", "detail": f"lines {t[2]} {t[3]}: {a[2:4]} vs {b[2:4]}"})
                return hits
        elif t[1] == "E":
            a, b = out.get(i - 2, []), out.get(i - 1, [])
            if has_ra and len(a) > 11 and len(b) > 11:
                a, b = a[:10] + a[12:], b[:10] + b[12:]
            if a[2:] != b[2:]:
                hits.append({"what": "final state of the session that saw rejected packets differs from its twin",
                             "signature": "twin-final-state", "detail": f"{str(a[2:])[:150]} vs {str(b[2:])[:150]}"})
                return hits
    return hits


def families(tier, seed):
    rng = random.Random(seed * 1000 + 13)
    n = 12 if tier == "quick" else 150
    rng2 = random.Random(seed * 1000 + 113)
    n2 = 6 if tier == "quick" else 80
    return [Family("twin-sessions", [(f"twin-{k}", scenario(rng, k, tier)) for k in range(n)], monitor=monitor),
            Family("gcm-twin-sessions", [(f"gtwin-{k}", with_aead(scenario, rng2, k, tier)) for k in range(n2)], monitor=monitor, config="openssl")]
