"""C07 — SRTCP replay protection and index handling."""
import random
from lib.engine import Family
from lib import gen

THEOREMS = ["rtcp_window_is_128", "rtcp_at_most_once", "rtcp_reachable_invariant", "rtcp_next_verdict",
            "rtcp_step", "rtcp_sender_counter"]
TRUSTED_BASE = ["Coq 8.16.1 kernel (coqc; vm_compute only in the Example)",
                "tools/gen_constants.py + constprobe.c (window width, 2^31-1 ceiling scraped from /repo)",
                "extraction: ExtrOcamlBasic only; harness/mdrv.ml",
                "harness/cdrv.c + cdrv_api.c driving srtp_rdb_* and srtp_(un)protect_rtcp of libsrtp built with ASan/UBSan",
                "modelled not verified: crypto/replay/rdb.c, v128_left_shift/v128 bit macros, the SRTCP path of srtp/srtp.c"]
ASSUMPTIONS = ["Rdb.v models v128_t as one 128-bit number; word-loop = N.shiftr is proved separately (BitvecProofs, C18)",
               "authentic packets only: acceptance additionally requires the tag to verify (C04)"]


def families(tier, seed):
    rng = random.Random(seed * 1000 + 7)
    n_scripts, n_ops = (24, 120) if tier == "quick" else (400, 1500)
    scripts = []
    starts = [0, 0, 1, 5, 1000, (1 << 31) - 400, (1 << 31) - 129, (1 << 31) - 128 - 127, (1 << 30)]
    for k in range(n_scripts):
        st = starts[k % len(starts)]
        txt, _ = gen.rdb_leaf_script(rng, n_ops, start=st)
        scripts.append((f"rdb-{k}-{st:x}", txt))
    # sender counter next to the ceiling
    for st in ((1 << 31) - 4, (1 << 31) - 2, (1 << 31) - 1, 0, 0x7ffffffe):
        scripts.append((f"incr-{st:x}", f"rdb_poke {gen.H(st)} | -\n" + "rdb_incr\n" * 6))
    from lib import apigen
    n = 10 if tier == "quick" else 120
    api = [(f"rx-{k}", apigen.replay_history(rng, tier, rtcp=True)[0]) for k in range(n)]
    return [Family("rdb-leaf", scripts, monitor=gen.rdb_leaf_monitor),
            Family("srtcp-unprotect-histories", api, monitor=lambda s, c: apigen.replay_monitor(s, c, True)),
            Family("gcm-srtcp-unprotect-histories", [(f"grx-{k}", apigen.with_aead(apigen.replay_history, random.Random(seed * 1000 + 107 + k), tier, rtcp=True)[0])
                                                     for k in range(6 if tier == "quick" else 60)],
                   monitor=lambda s, c: apigen.replay_monitor(s, c, True), config="openssl")]
