"""C18 — crypto-kernel primitives equal their standards for all lengths and chunkings."""
import random, hashlib, hmac as pyhmac, subprocess, shutil
from lib.engine import Family
from lib.gen import *

THEOREMS = ["icm_chunking_independent", "icm_terminus", "sha1_any_chunking_is_fips", "hmac_is_rfc2104", "oct_equal_iff",
            "bitvector_shift_is_shiftr", "v128_shift_is_shiftr"]
TRUSTED_BASE = ["Coq 8.16.1 kernel", "tools/gen_constants.py", "extraction (ExtrOcamlBasic) + harness/mdrv.ml",
                "harness/cdrv_api.c leaf ops calling srtp_cipher_* (AES-ICM), srtp_sha1_*, srtp_auth_* (HMAC), srtp_octet_string_equal, "
                "v128_left_shift, bitvector_left_shift of libsrtp (ASan/UBSan)",
                "NOT proved, only compared on sampled inputs: aes.c (table AES) and the SHA-1 compression rounds of sha1.c against the Gallina "
                "FIPS-197 / FIPS 180-4 functions (which carry the FIPS vectors as Examples); python hashlib / openssl as a third opinion"]
ASSUMPTIONS = ["the theorems are parametric in the block function E and the compression function C; equality of aes.c / srtp_sha1_core with "
               "the standards is established by differential runs only",
               "message lengths below 2^29 octets (the C code keeps a 32-bit bit counter)",
               "only the build configuration of this machine (SSE2 compare, portable shifts) is exercised by the quick tier"]


def rb(rng, n):
    return bytes(rng.randrange(256) for _ in range(n))


def chunking(rng, n):
    out = []
    left = n
    while left > 0 and len(out) < 12:
        c = rng.choice([0, 1, 2, 3, 15, 16, 17, 31, 32, 33, 63, 64, 65, rng.randrange(0, left + 1)])
        c = min(c, left)
        out.append(c); left -= c
    return out


def scripts(rng, tier):
    L = []
    big = tier != "quick"
    # AES blocks
    for _ in range(20 if not big else 200):
        L.append(f"aes | {rb(rng, rng.choice([16, 32])).hex()} {rb(rng, 16).hex()}")
    # ICM: all lengths in a range, random chunkings and misalignments
    lens = list(range(0, 70)) + [255, 256, 257, 4095, 4096, 4097] + ([rng.randrange(70, 4200) for _ in range(10)] if not big else list(range(70, 4200, 7)))
    for n in lens:
        key = rb(rng, rng.choice([30, 46])); iv = rb(rng, 14) + b"\0\0"
        ch = chunking(rng, n)
        L.append(f"icm {H(rng.randrange(16))} {' '.join(H(c) for c in ch)} | {key.hex()} {iv.hex()} {hexb(rb(rng, n))}")
        # the same call not in place, destination pre-filled (0x00, 0xff, random).  Source and destination are misaligned by
        # amounts that agree modulo 4: that is what the library itself produces (rtp + enc_start / srtp + enc_start of two packet
        # buffers the API requires to be 32-bit aligned).  With independent misalignments srtp_aes_icm_encrypt, which tests only
        # the destination pointer before it switches to 32-bit loads, reads the source through a misaligned uint32_t pointer
        # (UBSan stops the driver; the bytes are right on this machine) — outside what the callers can produce, see DESIGN 12.10
        smis = rng.randrange(16)
        a0 = smis | 0x10 | (((smis & 3) | (rng.randrange(4) << 2)) << 5) | (rng.choice([0, 0xff, rng.randrange(256)]) << 9)
        L.append(f"icm {H(a0)} {' '.join(H(c) for c in chunking(rng, n))} | {key.hex()} {iv.hex()} {hexb(rb(rng, n))}")
    # terminus: start the block counter next to 0xffff
    for ctr, n in ((0xfffd, 16), (0xfffd, 32), (0xfffd, 33), (0xfffe, 16), (0xfffe, 17), (0xffff, 1), (0xfffe, 1), (0xfff0, 300)):
        key = rb(rng, 30); iv = rb(rng, 14) + ctr.to_bytes(2, "big")
        # the offset's last two octets are zero, so the counter's low 16 bits are the IV's
        L.append(f"icm 0 {' '.join(H(c) for c in chunking(rng, n))} | {key.hex()} {iv.hex()} {hexb(rb(rng, n))}")
    # SHA-1 / HMAC: all lengths 0..(130|400) with chunkings
    for n in (range(0, 131) if not big else range(0, 401)):
        ch = chunking(rng, n)
        L.append(f"sha1 {' '.join(H(c) for c in ch)} | {hexb(rb(rng, n))}")
    for n in (list(range(0, 70)) + [119, 120, 127, 128, 129, 400] if not big else range(0, 401)):
        key = rb(rng, rng.choice([0, 1, 16, 20, 20, 20, 21]))
        tag = rng.choice([0, 4, 10, 10, 16, 20, 21])
        ch = chunking(rng, n)
        L.append(f"hmac {H(tag)} {' '.join(H(c) for c in ch)} | {hexb(key)} {hexb(rb(rng, n))}")
    # constant-time compare: all lengths 0..96, every single-bit difference (thorough) / sampled (quick)
    for n in range(0, 97):
        a = rb(rng, n)
        L.append(f"oct_eq | {hexb(a)} {hexb(a)}")
        bits = range(8 * n) if big else sorted(set(rng.randrange(8 * n) for _ in range(6))) if n else []
        for bit in bits:
            b = bytearray(a); b[bit // 8] ^= 0x80 >> (bit % 8)
            L.append(f"oct_eq | {hexb(a)} {hexb(bytes(b))}")
    # shifts: exhaustive shift amounts
    for s in range(0, 201):
        L.append(f"v128_shift {H(s)} | {rb(rng, 16).hex()}")
    for ln in (64, 65, 96, 128, 160, 1024, 4096 if big else 256):
        nb = (ln + 31) // 32 * 4
        for s in (range(0, ln + 40) if big or ln <= 160 else [0, 1, 31, 32, 33, ln - 33, ln - 32, ln - 1, ln, ln + 1, ln + 31, ln + 32] + [rng.randrange(ln) for _ in range(20)]):
            L.append(f"bv_shift {H(ln)} {H(s)} | {rb(rng, nb).hex()}")
    # shard
    out = []
    per = 400
    for i in range(0, len(L), per):
        out.append((f"kern-{i // per}", "\n".join(L[i:i + per]) + "\n"))
    return out


def monitor(script, c):
    """third opinion, independent of the model: hashlib for SHA-1 / HMAC, python integers for the shifts, == for the compare"""
    hits = []
    sl = [l for l in script.split("\n") if l.strip()]
    out = {int(l.split()[0]): l.split() for l in c if l.strip()}
    for i, l in enumerate(sl, 1):
        t = l.split(); o = out.get(i, [])
        if len(o) < 3:
            continue
        bar = t.index("|")
        ints = [int(x, 16) for x in t[1:bar]]
        bts = [bytes.fromhex(x) if x != "-" else b"" for x in t[bar + 1:]]
        if t[0] == "sha1":
            if o[2] != hashlib.sha1(bts[0]).hexdigest():
                hits.append({"what": "SHA-1 differs from FIPS 180-4 (hashlib)", "signature": "sha1-mismatch", "detail": f"len {len(bts[0])} chunks {ints}"}); break
        elif t[0] == "hmac":
            tag, key, msg = ints[0], bts[0], bts[1]
            if len(key) <= 20 and tag <= 20:
                want = pyhmac.new(key, msg, hashlib.sha1).digest()[:tag].hex() or "-"
                if int(o[2], 16) != 0 or (len(o) > 3 and o[3] != want):
                    hits.append({"what": "HMAC-SHA1 differs from RFC 2104 (python hmac)", "signature": "hmac-mismatch",
                                 "detail": f"keylen {len(key)} len {len(msg)} tag {tag} chunks {ints[1:]}"}); break
        elif t[0] == "oct_eq":
            n = min(len(bts[0]), len(bts[1]))
            if (o[2] == "1") != (bts[0][:n] == bts[1][:n]):
                hits.append({"what": "constant-time compare disagrees with byte equality", "signature": "octet-equal-mismatch",
                             "detail": f"len {n}: {l[:120]}"}); break
        elif t[0] == "v128_shift":
            v = int.from_bytes(bts[0], "big") >> ints[0]
            if int(o[2], 16) != v:
                hits.append({"what": "v128_left_shift is not a shift of the 128-bit window", "signature": "v128-shift-mismatch", "detail": f"shift {ints[0]}"}); break
        elif t[0] == "bv_shift":
            ln = (ints[0] + 31) // 32 * 32
            v = (int.from_bytes(bts[0], "big") % (1 << ln)) >> ints[1]
            if len(o) > 3 and int(o[3], 16) != v:
                hits.append({"what": "bitvector_left_shift is not a shift of the bit window", "signature": "bitvector-shift-mismatch",
                             "detail": f"length {ints[0]} shift {ints[1]}"}); break
        if t[0] == "icm" and len(bts) >= 3 and len(bts[0]) in (30, 46):
            # RFC 3711 4.1.1: at most 2^16 blocks per IV; the implementation refuses a call that would pass block 0xffff
            ctr0 = int.from_bytes(bts[1][14:16], "big") if len(bts[1]) >= 16 else 0
            pos, expect_st, data = 0, 0, bts[2]
            sizes = [min(c, len(data)) for c in ints[1:]]
            chunks, left = [], len(data)
            for c in ints[1:]:
                if left <= 0: break
                n = min(c, left); chunks.append(n); left -= n
            if left > 0: chunks.append(left)
            for n in chunks:
                if ctr0 + (pos + n + 15) // 16 > 65535:
                    expect_st = 6; break
                pos += n
            got_len = 0 if len(o) < 4 or o[3] == "-" else len(o[3]) // 2
            if int(o[2], 16) != expect_st or got_len != pos:
                hits.append({"what": "AES-ICM per-IV block limit: a call that would pass block 0xffff must be refused (terminus) and earlier ones accepted",
                             "signature": "icm-terminus", "detail": f"counter {ctr0:x} chunks {chunks}: status {o[2]} output {got_len} octets, expected status {expect_st:x} and {pos} octets"}); break
        if t[0] == "icm" and shutil.which("openssl") and len(bts[2]) > 0 and int(o[2], 16) == 0 and bts[1][14:] == b"\0\0" and len(bts[2]) < 1000:
            key = bts[0]; kl = len(key) - 14
            ctr = bytes(x ^ y for x, y in zip(key[kl:] + b"\0\0", bts[1]))
            try:
                r = subprocess.run(["openssl", "enc", f"-aes-{kl * 8}-ctr", "-K", key[:kl].hex(), "-iv", ctr.hex(), "-nopad"],
                                   input=bts[2], capture_output=True, timeout=10)
                if r.returncode == 0 and len(o) > 3 and o[3] != (r.stdout.hex() or "-"):
                    hits.append({"what": "AES-ICM output differs from AES-CTR (openssl)", "signature": "icm-mismatch",
                                 "detail": f"len {len(bts[2])} chunks {ints[1:]}"}); break
            except Exception:
                pass
    return hits


def families(tier, seed):
    rng = random.Random(seed * 1000 + 18)
    return [Family("kernel-leaf-ops", scripts(rng, tier), monitor=monitor)]
