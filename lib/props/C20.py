"""C20 — key material is wiped before its memory is released."""
import random
from lib.engine import Family
from lib import vlib
from lib.gen import *
from lib.apigen import *

THEOREMS = ["secret_blocks_wiped_before_free"]
TRUSTED_BASE = ["Coq 8.16.1 kernel", "tools/gen_constants.py", "extraction (ExtrOcamlBasic) + harness/mdrv.ml",
                "harness/cdrv_api.c: --wrap=free scans every block the library hands back for the registered secret byte strings "
                "(master keys from the script; session keys, salts, HMAC pad prefix and MKI values recomputed by the model's KDF)",
                "modelled not verified: the zeroisation calls in srtp_stream_dealloc, cipher / auth dealloc functions, srtp_stream_init_keys"]
ASSUMPTIONS = ["internal crypto backend (as the property says)",
               "dead-store elimination of the wipe by the compiler is visible only through the scan of the real binary; secrets left on the stack are outside the property",
               "a secret shorter than 8 octets is not scanned for (chance matches)"]
SANITIZER_IS_VIOLATION = True


def lifecycle(rng, k, fail_at=None):
    ssrc = rng.randrange(2, 1 << 32)
    mki = k % 2 == 0
    def pol(t, s, cipher=ICM128, xtn=False, valid=True):
        klen = 46 if cipher == ICM256 else 30
        p = default_policy(rng, s, ssrc_type=t, rtp=cp(cipher=cipher, keylen=klen), rtcp=cp(cipher=cipher, keylen=klen), keys=[(rand_key(rng, klen), b"")])
        if mki:
            p.keys = [(rand_key(rng, klen), rand_key(rng, 8)) for _ in range(2)]; p.use_mki = True; p.mki_size = 8; p.use_key_field = False
        if xtn: p.enc_xtn = b"\x03\x04"
        if not valid: p.window = 9
        return p
    pols = {1: pol(SSRC_SPECIFIC, ssrc), 2: pol(SSRC_ANY_OUT, 0, cipher=rng.choice([ICM128, ICM256]), xtn=True),
            3: pol(SSRC_SPECIFIC, ssrc ^ 1, cipher=ICM256), 4: pol(SSRC_SPECIFIC, ssrc), 5: pol(SSRC_ANY_OUT, 0),
            6: pol(SSRC_SPECIFIC, ssrc ^ 2, valid=False), 7: pol(SSRC_ANY_IN, 0)}
    pk = lambda s, q: rtp_packet(s, q, payload=b"secret-payload!!")
    ops = ["create 1 1 2", pkt_op("protect", 1, pk(ssrc, 1), extra=60, mki_index=1 if mki else 0), pkt_op("protect", 1, pk(99, 1), extra=60),
           pkt_op("protect_rtcp", 1, rtcp_packet(98, b"\0" * 8), extra=60), "add 1 3", "update 1 4", "update 1 5", f"remove 1 {H(ssrc ^ 1)}",
           "create 2 1 6",                      # failed create: second policy is refused, first one's keys must be wiped
           "create 3 7", pkt_op("unprotect", 3, "@2", cap=200), "add 1 6", "update 1 6", "dealloc 1", "dealloc 3"]
    return pols, ops


def build(tier, seed, ctx):
    rng = random.Random(seed * 1000 + 20)
    scripts = []
    n = 6 if tier == "quick" else 40
    plans = []
    for k in range(n):
        pols, ops = lifecycle(random.Random(seed * 97 + k), k)
        plans.append((pols, ops))
    # first pass: the model's KDF gives the secret strings of every policy
    lines, index = [], []
    for k, (pols, ops) in enumerate(plans):
        for pid, p in pols.items():
            lines.append(p.line(pid)); lines.append(f"secrets {pid:x}"); index.append((k, len(lines)))
    ml, merr, mrc = vlib.run_m(ctx["qdir"], "\n".join(lines) + "\n", timeout=600)
    secrets = {}
    out = {int(l.split()[0]): l.split()[2:] for l in ml if l.strip()}
    for k, ln in index:
        secrets.setdefault(k, set()).update(x for x in out.get(ln, []) if x != "-" and len(x) >= 16)
    for k, (pols, ops) in enumerate(plans):
        fails = [None] + ([] if tier == "quick" and k > 1 else [(oi, nth) for oi in range(len(ops)) if ops[oi].split()[0] in ("create", "add", "update") for nth in ((3, 9, 14, 22) if tier == "quick" else range(1, 40, 2))])
        # an allocation failing while a packet call CLONES the wildcard template (first packet of a new SSRC): the half-built
        # clone is released with whatever it already copied (MKI values, salts)
        fails += ([] if tier == "quick" and k > 1 else [(oi, nth) for oi in range(len(ops)) if ops[oi].split()[0] in ("protect", "protect_rtcp", "unprotect") for nth in range(1, 9)])
        for f in fails:
            L = [p.line(pid) for pid, p in pols.items()]
            L += [f"secret | {s}" for s in sorted(secrets.get(k, ()))]
            L.append("heap")
            for oi, o in enumerate(ops):
                if f and f[0] == oi:
                    L.append(f"failnth {H(f[1])}")
                L.append(o); L.append("heap")
            scripts.append((f"wipe-{k}" + (f"-f{f[0]}-{f[1]}" if f else ""), "\n".join(L) + "\n"))
    return scripts


def monitor(script, c):
    hits = []
    prev = 0
    last_op = "?"
    for l in c:
        t = l.split()
        if len(t) < 2:
            continue
        if t[1] == "heap" and len(t) > 5:
            d = int(t[5], 16)
            if d > prev:
                hits.append({"what": "a block containing key material was handed back to the allocator without being wiped",
                             "signature": "dirty-free:" + last_op.split()[1] if len(last_op.split()) > 1 else "dirty-free",
                             "detail": f"after `{last_op[:80]}`: {d - prev} block(s)"})
                return hits
            prev = d
        elif t[1] not in ("policy", "secret", "failnth"):
            last_op = l
    return hits


def trace_scripts(tier, seed):
    """srtp_dealloc / srtp_stream_remove with every wipe and free logged, compared event by event with WipeModel.v"""
    rng = random.Random(seed * 1000 + 21)
    out = []
    for k in range(10 if tier == "quick" else 80):
        ssrc = rng.randrange(2, 1 << 32)
        p1 = rand_policy(rng, ssrc=ssrc, valid=True)
        p2 = rand_policy(rng, ssrc=0, ssrc_type=SSRC_ANY_OUT, valid=True)
        p3 = rand_policy(rng, ssrc=ssrc ^ 5, valid=True)
        L = [p1.line(1), p2.line(2), p3.line(3), "create 1 1 2 3"]
        for i in range(rng.choice([0, 2, 5])):
            mi = rng.randrange(len(p2.keys)) if p2.use_mki else 0
            L.append(pkt_op("protect", 1, rtp_packet(1000 + i, 1, payload=b"abcd"), extra=200, mki_index=mi))
        if rng.random() < 0.5:
            L.append(f"remove_trace 1 {H(ssrc)}")
        if rng.random() < 0.5:
            L.append(f"remove_trace 1 {H(1000)}")
        L.append("dealloc_trace 1"); L.append("heap")
        out.append((f"trace-{k}", "\n".join(L) + "\n"))
    return out


def trace_monitor(script, c):
    """independent of the model: in the implementation's own event log every freed block of 'secret size' that was
    written during its life ... (sizes are configuration dependent, so this monitor only checks the generic rule:
    a block that is freed right after being wiped in full is fine; a block of the ICM-context or HMAC size freed
    without a full wipe just before is a violation)"""
    hits = []
    for l in c:
        t = l.split()
        if len(t) > 3 and t[1] in ("dealloc_trace", "remove_trace") and t[3] != "-":
            b = bytes.fromhex(t[3])
            evs = [(b[i], int.from_bytes(b[i + 1:i + 5], "big"), int.from_bytes(b[i + 5:i + 9], "big"), int.from_bytes(b[i + 9:i + 13], "big")) for i in range(0, len(b), 13)]
            for j, (ty, size, off, ln) in enumerate(evs):
                if ty == 2 and size in (312,):        # srtp_aes_icm_ctx_t / hmac block on this ABI
                    prev = evs[j - 1] if j else None
                    if not prev or prev[0] != 1 or prev[1] != size or prev[2] != 0 or prev[3] != size:
                        hits.append({"what": "a cipher / HMAC context was freed without being wiped in full immediately before",
                                     "signature": "free-without-wipe", "detail": f"{l.split()[1]}: event {j} of {len(evs)}"})
                        return hits
    return hits


def families(tier, seed, ctx):
    return [Family("lifecycle-scan", build(tier, seed, ctx), monitor=monitor),
            Family("dealloc-event-trace", trace_scripts(tier, seed), monitor=trace_monitor)]
