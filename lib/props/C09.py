"""C09 — key lifetime: usage limit enforced, expiry permanent."""
import random
from lib.engine import Family

THEOREMS = ["soft_limit_is_2_16", "budget_events", "expiry_permanent", "one_unit_per_update"]
TRUSTED_BASE = ["Coq 8.16.1 kernel (coqc, vm_compute in Examples only)",
                "tools/gen_constants.py + constprobe.c (soft_limit, initial budget scraped from /repo)",
                "extraction: ExtrOcamlBasic only; harness/mdrv.ml",
                "harness/cdrv.c driving srtp_key_limit_* and the session API of libsrtp built with ASan/UBSan",
                "modelled not verified: crypto/kernel/key.c, the key-limit call sites in srtp/srtp.c"]
ASSUMPTIONS = ["num_left is a 64-bit unsigned counter (LP64 build)"]
RULE = ("one evaluation = one script operation on libsrtp and on the extracted model; scripts pre-set the budget next to "
        "2^16, 1, 0 (kl_poke / poke_limit) and drive it through the thresholds; distinct = distinct (family, operation line)")

H = lambda v: ("-%x" % -v) if v < 0 else ("%x" % v)


def leaf_scripts(tier, rng):
    out = []
    starts = [0x10003, 0x10002, 0x10001, 0x10000, 0xffff, 5, 3, 2, 1, 0, (1 << 48) - 1, 1 << 48]
    # every bit position of the 64-bit budget: values whose low 16 / 32 bits are (almost) zero while higher bits are set (a
    # threshold test done in a narrower type, or with a mask, goes wrong exactly there), and the ends of the range
    starts += [(1 << b) + d for b in (17, 24, 31, 32, 33, 40, 47, 48, 56, 63) for d in (0, 1, 2, 0xffff, 0x10000)]
    starts += [3 << 32, (3 << 32) + 2, (1 << 64) - 1, (1 << 64) - 0x10000, (1 << 63) - 1]
    for s in starts:
        for st in (0, 1, 2):
            n = 8 if tier == "quick" else 40
            lines = [f"kl_poke {H(s)} {st}"] + ["kl_upd"] * n
            out.append((f"kl-{s:x}-{st}", "\n".join(lines) + "\n"))
    for v in (0, 1, 0xffff, 0x10000, 0x10001, (1 << 48) - 1, (1 << 64) - 1):
        out.append((f"klset-{v:x}", f"kl_set {H(v)}\nkl_upd\nkl_upd\n"))
    for i in range(20 if tier == "quick" else 400):
        s = rng.choice([rng.randrange(0, 40), 0x10000 + rng.randrange(-20, 20), rng.randrange(1 << 48),
                        (rng.randrange(1, 1 << 16) << rng.choice([16, 32, 48])) + rng.randrange(0, 40)])
        n = rng.randrange(1, 60)
        out.append((f"klr-{i}", "\n".join([f"kl_poke {H(s)} 0"] + ["kl_upd"] * n) + "\n"))
    return out


def leaf_monitor(script, c):
    """C09 on the leaf: after the first hard-limit event every later update is hard;
    no soft/hard event while the new budget is >= 2^16; exact decrement."""
    hits = []
    hard_seen = False
    prev = None
    for ln in c:
        t = ln.split()
        if len(t) < 2:
            continue
        if t[1] == "kl_poke" or t[1] == "kl_set":
            hard_seen = False
            prev = None
            continue
        if t[1] != "kl_upd":
            continue
        ev, left = int(t[2], 16), int(t[3], 16)
        if hard_seen and ev != 2:
            hits.append({"what": "key budget: update after expiry did not report the hard limit",
                         "signature": "keylimit-expiry-not-permanent", "detail": ln})
            break
        if ev != 0 and left >= 0x10000:
            hits.append({"what": "key budget: soft/hard event raised with remaining budget >= 2^16",
                         "signature": "keylimit-soft-early", "detail": ln})
            break
        if ev == 0 and left < 0x10000:
            hits.append({"what": "key budget: no event although remaining budget < 2^16",
                         "signature": "keylimit-soft-missed", "detail": ln})
            break
        if ev == 2:
            hard_seen = True
    return hits


def api_scripts(tier, rng, n=None):
    from lib.apigen import default_policy, rand_key, rtp_packet, pkt_op, one_byte_ext, SSRC_ANY_OUT, SSRC_ANY_IN, SSRC_SPECIFIC
    out = []
    n = n or (12 if tier == "quick" else 120)
    for k in range(n):
        wildcard = k % 2 == 1
        ssrcs = [rng.randrange(2, 1 << 32) for _ in range(2 if wildcard else 1)]
        mki = rng.random() < 0.3
        kw = {}
        if mki:
            kw = dict(keys=[(rand_key(rng, 30), bytes([i, 7])) for i in range(2)], use_mki=True, mki_size=2, use_key_field=False)
        if not __import__("lib.apigen", fromlist=["x"]).AEAD and k % 3 == 2:
            # streams without the authentication service (legal: e.g. srtp_crypto_policy_set_aes_cm_128_null_auth) use up the key
            # budget like any other
            from lib.apigen import cp, NULL_AUTH
            kw["rtp"] = rng.choice([cp(serv=1), cp(serv=0), cp(auth=NULL_AUTH, authkeylen=0, taglen=0, serv=1)])
        xtn = k % 5 == 3
        if xtn:
            # RFC 6904 ids configured and packets that carry a listed element: the header-extension step runs between the budget
            # decision and the return, on both sides
            kw["enc_xtn"] = b"\x01\x07"
        L = []
        if wildcard:
            ps = default_policy(rng, 0, ssrc_type=SSRC_ANY_OUT, **kw)
            pr = default_policy(rng, 0, ssrc_type=SSRC_ANY_IN, **dict(kw, keys=ps.keys, rtp=ps.rtp, rtcp=ps.rtcp))
            L += [ps.line(1), pr.line(2), "create 1 1", "create 2 2"]
        else:
            ps = default_policy(rng, ssrcs[0], **kw)
            L += [ps.line(1), "create 1 1", "create 2 1"]
        seq = {s: 1 for s in ssrcs}
        def traffic(s, mi=0):
            pkt = rtp_packet(s, seq[s] & 0xffff, payload=b"budget!!", ext=(one_byte_ext([(1, b"ab"), (3, b"c")]) if xtn else None)); seq[s] += 1
            L.append(f"peek 1 {1 if wildcard else 0} {H(s)}")
            L.append(pkt_op("protect", 1, pkt, extra=40, mki_index=mi)); a = len(L)
            L.append(f"peek 1 {1 if wildcard else 0} {H(s)}"); L.append(f"# TX {s:x} {mi}")
            if k % 3 == 1 and not __import__("lib.apigen", fromlist=["x"]).AEAD and "rtp" not in kw:
                # a damaged copy first (authenticated stream: it is refused): a refused packet uses up nothing
                L.append(f"peek 2 {1 if wildcard else 0} {H(s)}")
                L.append(pkt_op("unprotect", 2, f"@{a:x}~{rng.randrange(8 * 12, 8 * 20):x}", cap=100))
                L.append(f"peek 2 {1 if wildcard else 0} {H(s)}"); L.append(f"# RJ {s:x} {mi}")
            L.append(f"peek 2 {1 if wildcard else 0} {H(s)}")
            L.append(pkt_op("unprotect", 2, f"@{a:x}", cap=100))
            L.append(f"peek 2 {1 if wildcard else 0} {H(s)}"); L.append(f"# RX {s:x} {mi}")
        for s in ssrcs:
            traffic(s)            # creates the clones
        start = [0x10003, 2, 0x10001, 3, (1 << 32) + 2, 1, 0x10002, 4, 0x10000, (3 << 32) + 2, (1 << 33) + 0x10001, (1 << 40) + 1][k % 12]     # stratified: soft and hard threshold in every run
        which = 1 if wildcard else 0
        L.append(f"poke_limit 1 {which} {H(ssrcs[0])} 0 {H(start)} 0")
        # the receiver's budget may also be the smaller one, so that srtp_unprotect itself reaches the hard limit
        L.append(f"poke_limit 2 {which} {H(ssrcs[0])} 0 {H(max(1, start + [0, 1, -1, -2, 2][k % 5]))} 0")
        rocs = {s: 0 for s in ssrcs}
        for i in range(10):
            s_ = rng.choice(ssrcs)
            if k % 4 == 0 and i in (2, 6):
                # the application moves the rollover counter ahead on both sides: the next packet takes the index-advance path of
                # srtp_protect / srtp_unprotect, which uses up the key budget like every other packet
                rocs[s_] += rng.choice([1, 3])
                L.append(f"setroc 1 {H(s_)} {H(rocs[s_])}"); L.append(f"setroc 2 {H(s_)} {H(rocs[s_])}")
            traffic(s_, 0)
            if mki and rng.random() < 0.3:
                traffic(rng.choice(ssrcs), 1)          # the other key is not affected
        L += ["dealloc 1", "dealloc 2"]
        out.append((f"budget-{k}", "\n".join(L) + "\n"))
    return out


def api_monitor(script, c):
    """per call: budget of the key in use drops by exactly one (peek field: num_left of key 0), soft event
    exactly when the new budget is in (0,2^16), key_expired + hard event when it reaches 0, and for ever after."""
    hits = []
    sl = script.split("\n")
    out = {int(l.split()[0]): l.split() for l in c if l.strip()}
    dead = set()
    for i, l in enumerate(sl, 1):
        t = l.split()
        if len(t) >= 4 and t[0] == "#" and t[1] == "RJ" and t[3] == "0":
            before, op, after = out.get(i - 3, []), out.get(i - 2, []), out.get(i - 1, [])
            if len(op) > 7 and len(before) > 10 and len(after) > 10 and before[2] == "0" and after[2] == "0" and int(op[2], 16) not in (0, 0xf):
                if before[10] != after[10] or op[7] != "-":
                    hits.append({"what": "a refused packet consumed key budget or raised a key-limit event", "signature": "api-refused-charged:" + op[1],
                                 "detail": f"line {op[0]}: status {op[2]} budget {before[10]}->{after[10]} events {op[7]}"}); return hits
            continue
        if len(t) < 4 or t[0] != "#" or t[1] not in ("TX", "RX") or t[3] != "0":
            continue
        side = t[1]
        before, op, after = out.get(i - 3, []), out.get(i - 2, []), out.get(i - 1, [])
        if len(op) < 8 or len(before) < 11 or len(after) < 11 or before[2] != "0" or after[2] != "0":
            continue
        st = int(op[2], 16)
        if side == "RX":
            # the packet fed in is the output of the protect call just before; when that call failed (the sender's key has
            # expired) there is no packet and the unprotect call is rejected as malformed before any key is looked at
            ref = sl[i - 3].split("|")[1].strip() if "|" in sl[i - 3] else ""
            src = out.get(int(ref[1:], 16), []) if ref.startswith("@") else []
            if len(src) < 3 or src[2] != "0":
                continue
        b, a = int(before[10], 16), int(after[10], 16)
        ev = op[7]
        evs = [int(ev[j:j + 2], 16) for j in range(0, len(ev), 10)] if ev != "-" else []
        if side in dead and st != 0xf:
            hits.append({"what": f"call on an expired key did not fail with key_expired (status {st:x})", "signature": "api-expiry-not-permanent:" + op[1],
                         "detail": f"line {op[0]}"}); return hits
        if st == 0xf:
            dead.add(side)
            if a != 0 or 2 not in evs:
                hits.append({"what": "key_expired without exhausted budget or without hard-limit event", "signature": "api-hard-event:" + op[1],
                             "detail": f"line {op[0]}: budget {b:x}->{a:x} events {evs}"}); return hits
            continue
        if st == 0:
            if a != b - 1:
                hits.append({"what": "a processed packet did not consume exactly one unit of the key budget", "signature": "api-unit:" + op[1],
                             "detail": f"line {op[0]}: {b:x}->{a:x}"}); return hits
            want_soft = 0 < a < 0x10000
            if want_soft != (1 in evs):
                hits.append({"what": "soft-limit event not raised exactly when the remaining budget is below 2^16", "signature": "api-soft-event:" + op[1],
                             "detail": f"line {op[0]}: budget {a:x} events {evs}"}); return hits
    return hits


def families(tier, seed):
    rng = random.Random(seed * 1000 + 9)
    return [Family("keylimit-leaf", leaf_scripts(tier, rng), monitor=leaf_monitor),
            Family("keylimit-api", api_scripts(tier, rng), monitor=api_monitor),
            # AES-GCM streams (OpenSSL configuration): srtp_protect_aead charges first, srtp_unprotect_aead after authentication
            Family("gcm-keylimit-api", __import__("lib.apigen", fromlist=["x"]).with_aead(api_scripts, tier, random.Random(seed * 1000 + 109), n=(6 if tier == "quick" else 80)),
                   monitor=api_monitor, config="openssl")]
