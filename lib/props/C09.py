"""C09 — key lifetime: usage limit enforced, expiry permanent."""
import random
from lib.engine import Family

THEOREMS = ["soft_limit_is_2_16", "budget_events", "expiry_permanent", "one_unit_per_update"]
TRUSTED_BASE = ["Coq 8.16.1 kernel (coqc, vm_compute in Examples only)",
                "tools/gen_constants.py + constprobe.c (soft_limit, initial budget scraped from /repo)",
                "extraction: ExtrOcamlBasic only; harness/mdrv.ml",
                "harness/cdrv.c driving srtp_key_limit_* and the session API of libsrtp built with ASan/UBSan",
                "modelled not verified: crypto/kernel/key.c, the key-limit call sites in srtp/srtp.c"]
ASSUMPTIONS = ["num_left is a 64-bit unsigned counter (LP64 build)"]
RULE = ("one evaluation = one script operation on libsrtp and on the extracted model; scripts pre-set the budget next to "
        "2^16, 1, 0 (kl_poke / poke_limit) and drive it through the thresholds; distinct = distinct (family, operation line)")

H = lambda v: ("-%x" % -v) if v < 0 else ("%x" % v)


def leaf_scripts(tier, rng):
    out = []
    starts = [0x10003, 0x10002, 0x10001, 0x10000, 0xffff, 5, 3, 2, 1, 0, (1 << 48) - 1, 1 << 48]
    for s in starts:
        for st in (0, 1, 2):
            n = 8 if tier == "quick" else 40
            lines = [f"kl_poke {H(s)} {st}"] + ["kl_upd"] * n
            out.append((f"kl-{s:x}-{st}", "\n".join(lines) + "\n"))
    for v in (0, 1, 0xffff, 0x10000, 0x10001, (1 << 48) - 1, (1 << 64) - 1):
        out.append((f"klset-{v:x}", f"kl_set {H(v)}\nkl_upd\nkl_upd\n"))
    for i in range(20 if tier == "quick" else 400):
        s = rng.choice([rng.randrange(0, 40), 0x10000 + rng.randrange(-20, 20), rng.randrange(1 << 48)])
        n = rng.randrange(1, 60)
        out.append((f"klr-{i}", "\n".join([f"kl_poke {H(s)} 0"] + ["kl_upd"] * n) + "\n"))
    return out


def leaf_monitor(script, c):
    """C09 on the leaf: after the first hard-limit event every later update is hard;
    no soft/hard event while the new budget is >= 2^16; exact decrement."""
    hits = []
    hard_seen = False
    prev = None
    for ln in c:
        t = ln.split()
        if len(t) < 2:
            continue
        if t[1] == "kl_poke" or t[1] == "kl_set":
            hard_seen = False
            prev = None
            continue
        if t[1] != "kl_upd":
            continue
        ev, left = int(t[2], 16), int(t[3], 16)
        if hard_seen and ev != 2:
            hits.append({"what": "key budget: update after expiry did not report the hard limit",
                         "signature": "keylimit-expiry-not-permanent", "detail": ln})
            break
        if ev != 0 and left >= 0x10000:
            hits.append({"what": "key budget: soft/hard event raised with remaining budget >= 2^16",
                         "signature": "keylimit-soft-early", "detail": ln})
            break
        if ev == 0 and left < 0x10000:
            hits.append({"what": "key budget: no event although remaining budget < 2^16",
                         "signature": "keylimit-soft-missed", "detail": ln})
            break
        if ev == 2:
            hard_seen = True
    return hits


def families(tier, seed):
    rng = random.Random(seed * 1000 + 9)
    return [Family("keylimit-leaf", leaf_scripts(tier, rng), monitor=leaf_monitor)]
