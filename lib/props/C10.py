"""C10 — memory safety for arbitrary packets under every accepted configuration."""
import random
from lib.engine import Family
from lib.gen import *
from lib.apigen import *

THEOREMS = ["policy_envelope", "validate_rtp_bounds"]
TRUSTED_BASE = ["Coq 8.16.1 kernel", "tools/gen_constants.py (array sizes SRTP_MAX_TAG_LEN, MAX_SRTP_KEY_LEN, keystream[257])",
                "extraction (ExtrOcamlBasic) + harness/mdrv.ml",
                "harness/cdrv*.c: exact-size heap buffers for input and output, guard bytes, ASan+UBSan build of libsrtp",
                "modelled not verified: all offset / length arithmetic of the four packet functions and of key derivation"]
ASSUMPTIONS = ["undefined behaviour other than out-of-bounds offsets (alignment of the header casts, strict aliasing, uninitialised reads) is "
               "visible only to the sanitizers on the explored inputs, not to the theorems",
               "internal crypto configuration"]
SANITIZER_IS_VIOLATION = True


def envelope_scripts(rng, tier):
    """policies at and beyond the edge of what the fixed-size scratch buffers can hold"""
    out = []
    cases = []
    for tag in (15, 16, 17, 18, 19, 20, 21):
        cases.append(("hmac-tag", dict(rtp=cp(taglen=tag), rtcp=cp(taglen=tag))))
        cases.append(("hmac-tag-rtp", dict(rtp=cp(taglen=tag))))
    for tag in (16, 17, 32, 64, 200):
        cases.append(("null-auth-tag", dict(rtp=cp(auth=NULL_AUTH, authkeylen=0, taglen=tag), rtcp=cp(auth=NULL_AUTH, authkeylen=0, taglen=tag))))
    for kl in (30, 46, 64, 65, 255, 256, 257, 300):
        cases.append(("null-cipher-key", dict(rtp=cp(cipher=NULL_CIPHER, keylen=kl), rtcp=cp(cipher=NULL_CIPHER, keylen=kl))))
    for akl in (20, 21, 64, 256, 257, 400):
        cases.append(("null-auth-key", dict(rtp=cp(auth=NULL_AUTH, authkeylen=akl, taglen=4), rtcp=cp(auth=NULL_AUTH, authkeylen=akl, taglen=4))))
    for msz in (1, 127, 128, 129):
        cases.append(("mki", dict(mki=msz)))
    for ws in (0, 1, 63, 64, 32767, 32768, 65536, 1 << 20):
        cases.append(("window", dict(window=ws)))
    # accepted window sizes of every residue class modulo 32 and modulo 128 (the bit vector is allocated in 32-bit words rounded
    # up to 16 octets): a size computation that is wrong for one class writes past the block at create time or on the first shift
    for ws in ([65, 95, 96, 97, 127, 129, 130, 159, 160, 161, 255, 257, 287, 1000, 1023, 1025, 32766] if tier == "quick" else
               list(range(64, 420)) + [1000, 1023, 1025, 4095, 4097, 32766]):
        cases.append(("window", dict(window=ws)))
    # tag lengths above the scratch buffer in a half that does not ask for authentication (SRTCP authenticates regardless)
    for tag in (17, 20):
        for serv in (1, 0):
            cases.append(("big-tag-no-auth-serv", dict(rtp=cp(taglen=tag, serv=serv), rtcp=cp(taglen=tag, serv=serv))))
            cases.append(("big-tag-no-auth-serv-rtcp", dict(rtcp=cp(taglen=tag, serv=serv))))
    # MKI switched off but an MKI size (and MKI values) left in the policy
    for msz in (4, 128, 200):
        cases.append(("mki-off-size", dict(mki=msz, mki_off=True)))
    for name, kw in cases:
        ssrc = rng.randrange(2, 1 << 32)
        klen = max(kw.get("rtp", cp())[1], kw.get("rtcp", cp())[1], 30)
        p = default_policy(rng, ssrc)
        p.keys = [(rand_key(rng, klen), b"")]
        if "rtp" in kw: p.rtp = kw["rtp"]
        if "rtcp" in kw: p.rtcp = kw["rtcp"]
        if "window" in kw: p.window = kw["window"]
        if "mki" in kw:
            p.keys = [(rand_key(rng, 30), bytes(range(kw["mki"])))]; p.use_mki = not kw.get("mki_off"); p.mki_size = kw["mki"]; p.use_key_field = False
        L = [p.line(1), "create 1 1", "create 2 1"]
        for i in range(3):
            pkt = rand_rtp(rng, ssrc, i + 1, ext_ok=False)
            L.append(pkt_op("protect", 1, pkt, cap=len(pkt) + 400, mode=rng.choice([0, 1]))); a = len(L)
            L.append(pkt_op("unprotect", 2, f"@{a:x}", cap=len(pkt) + 400, mode=rng.choice([0, 1])))
            rp = rand_rtcp(rng, ssrc)
            L.append(pkt_op("protect_rtcp", 1, rp, cap=len(rp) + 400, mode=rng.choice([0, 1]))); a = len(L)
            L.append(pkt_op("unprotect_rtcp", 2, f"@{a:x}", cap=len(rp) + 400, mode=rng.choice([0, 1])))
        L += ["dealloc 1", "dealloc 2"]
        out.append((f"env-{name}-{len(out)}", "\n".join(L) + "\n"))
    return out


def malformed_scripts(rng, tier, n=None):
    out = []
    n = n or (30 if tier == "quick" else 400)
    for k in range(n):
        ssrc = rng.randrange(2, 1 << 32)
        p, _ = strat_policy(rng, k, ssrc=ssrc, valid=True)
        wild = rng.random() < 0.3
        L = [p.line(1), "create 1 1"]
        if wild:
            L.append(p.line(2, ssrc_type=SSRC_ANY_IN)); L.append("create 2 2")
        else:
            L.append("create 2 1")
        seq = 1
        for i in range(10 if tier == "quick" else 40):
            r = rng.random()
            if r < 0.3:
                blob = rand_key(rng, rng.choice([0, 1, 3, 7, 8, 11, 12, 13, 15, 16, 20, 27, 28, 40, 100]))
                if len(blob) >= 12 and rng.random() < 0.7:
                    blob = blob[:8] + ssrc.to_bytes(4, "big") + blob[12:]
                if len(blob) >= 8 and rng.random() < 0.5:
                    blob = blob[:4] + ssrc.to_bytes(4, "big") + blob[8:]
                cap = rng.choice([0, len(blob), len(blob) + 200, max(0, len(blob) - 5)])
                op = rng.choice(["protect", "unprotect", "protect_rtcp", "unprotect_rtcp"])
                L.append(pkt_op(op, rng.choice([1, 2]), blob, cap=cap, mode=rng.choice([0, 1, 2, 3])))
            else:
                rtcp = rng.random() < 0.4
                pkt = rand_rtcp(rng, ssrc) if rtcp else rand_rtp(rng, ssrc, seq, ids=list(p.enc_xtn) or None)
                seq += 1
                mi = rng.randrange(len(p.keys)) if p.use_mki else 0
                L.append(pkt_op("protect_rtcp" if rtcp else "protect", 1, pkt, cap=len(pkt) + p.trailer(not rtcp), mode=rng.choice([0, 1]), mki_index=mi))
                a = len(L)
                # truncations / extensions / bit flips of the genuine packet, small output capacities
                w = rng.randrange(5)
                tot = len(pkt) + p.trailer(not rtcp)
                if w == 0: ref = f"@{a:x}<{rng.randrange(0, tot + 1):x}"
                elif w == 1: ref = f"@{a:x}+{rand_key(rng, rng.randrange(1, 40)).hex()}"
                elif w == 2: ref = f"@{a:x}~{rng.randrange(0, 8 * max(tot, 1)):x}"
                elif w == 3: ref = f"@{a:x}<{max(0, tot - rng.choice([1, 4, 10, 11, 14])):x}"
                else: ref = f"@{a:x}"
                cap = rng.choice([0, 4, 12, len(pkt) - 1, len(pkt), len(pkt) + 100])
                L.append(pkt_op("unprotect_rtcp" if rtcp else "unprotect", 2, ref, cap=max(cap, 0), mode=rng.choice([0, 1, 2, 3])))
        L += ["dealloc 1", "dealloc 2"]
        out.append((f"mal-{k}", "\n".join(L) + "\n"))
    return out


def forged_scripts(rng, tier):
    """packets with VALID tags (made with the stream's own keys: a buggy or malicious peer) whose lengths and
    header fields sit next to every length check of the unprotect functions"""
    out = []
    n = 10 if tier == "quick" else 80
    for k in range(n):
        M = rng.choice([1, 2, 4, 4, 8, 16, 128])
        tag = rng.choice([4, 10, 10, 16])
        conf = rng.choice([3, 3, 2])
        cipher = rng.choice([ICM128, ICM128, NULL_CIPHER])
        nk = rng.choice([1, 2])
        keys = [(rand_key(rng, 30), bytes([(i * 51 + j) & 0xff for j in range(M)])) for i in range(nk)]
        p = default_policy(rng, 0, ssrc_type=SSRC_ANY_IN, rtp=cp(cipher=cipher, taglen=tag, serv=conf), rtcp=cp(cipher=cipher, taglen=tag, serv=conf),
                           keys=keys, use_mki=True, mki_size=M, use_key_field=False, cryptex=rng.random() < 0.2)
        L = [p.line(1), "create 2 1"]
        ki = rng.randrange(nk)
        mki = keys[ki][1]
        # ---- SRTCP: total length from tag+M up to 12+tag+M+3
        for tot in sorted(set(list(range(tag + M, 12 + tag + M + 4)) + [8 + tag + M, 12 + tag, 12 + tag + M - 1, 12 + tag + M])):
            auth_len = tot - tag - M
            if auth_len < 0 or tot < 12:
                continue
            body = bytearray(rand_key(rng, auth_len))
            if auth_len >= 4:
                body[auth_len - 4] = (body[auth_len - 4] & 0x7f) | (0x80 if conf & 1 else 0)
            if rng.random() < 0.3 and auth_len >= 4:
                body[auth_len - 4] ^= 0x80
            L.append(f"mktag 2 1 0 {H(ki)} 1 | {hexb(bytes(body))}"); t = len(L)
            L.append(pkt_op("unprotect_rtcp", 2, f"{hexb(bytes(body) + mki)}&{t:x}:0", cap=rng.choice([tot, tot + 50, max(tot - tag - M - 4, 0)]), mode=rng.choice([0, 1])))
        # ---- SRTP: extension / CSRC lengths that run into the MKI / tag region
        for i in range(14 if tier == "quick" else 40):
            cc = rng.choice([0, 0, 1, 15])
            x = rng.choice([0, 1, 1])
            pay = rng.choice([0, 1, 4, 16])
            extw = rng.choice([0, 1, 2, 3])
            hdr = 12 + 4 * cc
            plain_len = hdr + (4 + 4 * extw if x else 0) + pay
            # claim an extension longer than what precedes the trailer by d words
            d = rng.choice([0, 0, 1, 2, (M + tag + 3) // 4, (M + tag + 3) // 4 + 1])
            body = bytearray(rtp_packet(rng.randrange(1, 1 << 32), rng.randrange(65536), payload=rand_key(rng, pay), cc=cc,
                                        ext=((rng.choice([0xBEDE, 0x1000, 0xC0DE, 0xC2DE]), rand_key(rng, 4 * extw)) if x else None)))
            if x:
                body[hdr + 2:hdr + 4] = (extw + d).to_bytes(2, "big")
            L.append(f"mktag 2 1 0 {H(ki)} 0 | {hexb(bytes(body) + bytes(4))}"); t = len(L)
            tot = len(body) + M + tag
            L.append(pkt_op("unprotect", 2, f"{hexb(bytes(body) + mki)}&{t:x}:0", cap=rng.choice([tot, len(body), max(len(body) - 1, 0), hdr]), mode=rng.choice([0, 1, 2])))
        L.append("dealloc 2")
        out.append((f"forged-{k}", "\n".join(L) + "\n"))
    # cryptex without authentication: CSRC list / extension header overlapping the trailer, output capacity = plaintext size
    for k in range(6 if tier == "quick" else 40):
        tag = rng.choice([4, 10, 16])
        cc = rng.choice([1, 2, 3, 15])
        p = default_policy(rng, 0, ssrc_type=SSRC_ANY_IN, rtp=cp(taglen=tag, serv=1), rtcp=cp(), cryptex=True)
        L = [p.line(1), "create 2 1"]
        hdr = 12 + 4 * cc
        for j in range(0, 5):
            for extw in (0, 1):
                # the packet is hdr + 4 + 4*extw + pay octets long; the last `tag` octets are (unchecked) tag
                pay = rng.choice([0, 0, 2, tag])
                tot = hdr + 4 + 4 * extw + pay
                pkt = bytearray(rtp_packet(rng.randrange(1, 1 << 32), 7, payload=rand_key(rng, pay), cc=cc,
                                           ext=(rng.choice([0xC0DE, 0xC2DE]), rand_key(rng, 4 * extw))))
                for mode in (0, 1):
                    cap = max(tot - tag, 0) + rng.choice([0, 0, 1])
                    L.append(pkt_op("unprotect", 2, bytes(pkt), cap=cap, mode=mode))
        L.append("dealloc 2")
        out.append((f"cryptex-overlap-{k}", "\n".join(L) + "\n"))
    return out


def xtn_edge_scripts(rng, tier):
    """RFC 6904 / cryptex header-extension walks at the END of the buffer: ragged element streams (lone last octet,
    elements ending at / beyond the block), empty payload, no tag and no MKI (so in place nothing follows the extension),
    exact-size output buffers out of place."""
    out = []
    n = 10 if tier == "quick" else 80
    for k in range(n):
        ssrc = rng.randrange(2, 1 << 32)
        ids = bytes(rng.sample(range(1, 15), rng.choice([1, 2, 14])))
        notag = k % 2 == 0
        rtp = cp(auth=NULL_AUTH, authkeylen=0, taglen=0, serv=rng.choice([1, 1, 0])) if notag else cp(taglen=rng.choice([4, 10]), serv=rng.choice([3, 2]))
        cryptex = (k % 5 == 4)
        p = default_policy(rng, ssrc, rtp=rtp, enc_xtn=b"" if cryptex else ids, cryptex=cryptex)
        L = [p.line(1), "create 1 1", "create 2 1"]
        seq = 1
        for i in range(24 if tier == "quick" else 60):
            ext = ragged_ext(rng, list(ids)) if rng.random() < 0.85 else rand_ext(rng, list(ids))
            pay = rng.choice([0, 0, 0, 1, 4])
            pkt = rtp_packet(ssrc, seq, payload=rand_key(rng, pay), cc=rng.choice([0, 0, 1]), ext=ext)
            seq += 1
            L.append(pkt_op("protect", 1, pkt, cap=len(pkt) + p.trailer(), mode=rng.choice([0, 0, 1, 2]))); a = len(L)
            # plain text fed to unprotect directly as well (forged when there is no tag): exact-size output
            if notag:
                L.append(pkt_op("unprotect", 2, pkt, cap=len(pkt), mode=rng.choice([0, 1, 2])))
                seq += 1
            else:
                L.append(pkt_op("unprotect", 2, f"@{a:x}", cap=len(pkt), mode=rng.choice([0, 1, 2])))
        L += ["dealloc 1", "dealloc 2"]
        out.append((f"xtn-edge-{k}", "\n".join(L) + "\n"))
    return out


def gcm_crafted_scripts(rng, tier):
    """a key holder's packets for a receiver whose AES-GCM policy combines cryptex with RFC 6904 ids: CSRC values that read
    as an extension header (profile 0x1000 / 0xBEDE, long length) once cryptex has shuffled the CSRC list in place, payloads
    that parse as chains of extension elements; exact-size buffers.  (Once an out-of-bounds walk in srtp_unprotect_aead.)"""
    out = []
    for k in range(6 if tier == "quick" else 40):
        ssrc = rng.randrange(2, 1 << 32)
        bits = rng.choice([128, 256])
        g = gcm_cp(bits, rng.choice([16, 8]), 3)
        key = rand_key(rng, 44)
        ids = bytes(rng.sample(range(1, 15), rng.choice([1, 3])))
        ps = default_policy(rng, ssrc, rtp=g, rtcp=g, keys=[(key, b"")], cryptex=True)
        pr = default_policy(rng, ssrc, rtp=g, rtcp=g, keys=[(key, b"")], cryptex=True, enc_xtn=ids)
        L = [ps.line(1), pr.line(2), "create 1 1", "create 2 2", "create 3 2"]
        for i in range(6):
            cc = rng.choice([1, 1, 2, 15])
            fake = rng.choice([0x10000100, 0x100000ff, 0xbede0040, 0xbede00ff, 0x10050010])
            csrcs = [rng.randrange(1 << 32) for _ in range(cc - 1)] + [fake]
            eid = rng.choice(list(ids))
            payload = (bytes([eid, 255]) if fake >> 16 != 0xbede else bytes([(eid << 4) | 15])) + rand_key(rng, rng.choice([0, 3, 20, 40]))
            pkt = rtp_packet(ssrc, 10 + i, payload=payload, csrcs=csrcs, ext=(rng.choice([0xBEDE, 0x1000]), rand_key(rng, 4 * rng.choice([0, 1, 2]))))
            L.append(pkt_op("protect", 1, pkt, cap=len(pkt) + 16, mode=0)); a = len(L)
            L.append(pkt_op("unprotect", 2, f"@{a:x}", cap=len(pkt), mode=0))
            L.append(pkt_op("unprotect", 3, f"@{a:x}", cap=len(pkt), mode=rng.choice([1, 2])))
        L += ["dealloc 1", "dealloc 2", "dealloc 3"]
        out.append((f"gcm-crafted-{k}", "\n".join(L) + "\n"))
    return out


def state_scripts(rng, tier, n=None):
    """every session STATE: packets (well-formed) whose sequence numbers sit at the edges of the replay window of a running
    stream, on the sender as well as on the receiver — behind the highest index by ws-1, ws, ws+1, several windows, up to 2^15,
    with and without allow_repeat_tx, window sizes that are and are not multiples of 32, after set_roc; the replay data base
    indexes its bit vector with (length - 1 + delta)"""
    out = []
    n = n or (12 if tier == "quick" else 120)
    for k in range(n):
        ssrc = rng.randrange(2, 1 << 32)
        ws = rng.choice([64, 65, 100, 128, 128, 1024, 32767])
        p = default_policy(rng, ssrc, window=ws, allow_repeat=(k % 2 == 0))
        L = [p.line(1), "create 1 1", "create 2 1"]
        hi = rng.choice([5, 300, 40000, 65530, 70000])
        sent = {}
        def tx(idx, also_rx=True):
            pkt = rtp_packet(ssrc, idx & 0xffff, payload=rand_key(rng, rng.choice([0, 5, 32])))
            L.append(pkt_op("protect", 1, pkt, extra=40, mode=rng.choice([0, 1])))
            sent.setdefault(idx, len(L))
        def rx(idx):
            if idx in sent:
                L.append(pkt_op("unprotect", 2, f"@{sent[idx]:x}", cap=120, mode=rng.choice([0, 1])))
        # walk the sender (and receiver) up to hi, remembering some old packets for late delivery
        base = max(0, hi - 2 * ws - 40)
        for idx in sorted({base, base + 1, max(0, hi - ws - 1), max(0, hi - ws), max(0, hi - ws + 1), max(0, hi - 1), hi}):
            tx(idx)
        rx(hi)
        if rng.random() < 0.3:
            r = (hi >> 16) + rng.choice([1, 2])
            L += [f"setroc 1 {H(ssrc)} {H(r)}", f"setroc 2 {H(ssrc)} {H(r)}"]
        for _ in range(12 if tier == "quick" else 40):
            d = rng.choice([0, 1, ws - 1, ws, ws + 1, 2 * ws, 3 * ws + 7, 20000, 32767, 32768, 40000])
            idx = hi - d
            if idx < 0:
                continue
            tx(idx)            # the sender is asked to protect a late / repeated sequence number
            rx(idx)            # ... and the receiver gets a late packet (if it exists)
            if rng.random() < 0.2:
                hi += rng.choice([1, ws, 5000]); tx(hi); rx(hi)
        L += ["dealloc 1", "dealloc 2"]
        out.append((f"state-{k}", "\n".join(L) + "\n"))
    return out


def monitor(script, c):
    hits = []
    for l in c:
        t = l.split()
        if len(t) > 6 and t[1] in ("protect", "unprotect", "protect_rtcp", "unprotect_rtcp"):
            if t[6] == "0":
                hits.append({"what": "bytes at or beyond the output capacity were modified", "signature": "write-beyond-capacity:" + t[1],
                             "detail": l[:200]})
                break
            if t[5] == "0":
                hits.append({"what": "input buffer modified in out-of-place mode", "signature": "input-modified:" + t[1], "detail": l[:200]})
                break
    return hits


def families(tier, seed):
    rng = random.Random(seed * 1000 + 10)
    return [Family("policy-envelope", envelope_scripts(rng, tier), monitor=monitor),
            Family("malformed-packets", malformed_scripts(rng, tier), monitor=monitor),
            Family("forged-by-key-holder", forged_scripts(rng, tier), monitor=monitor),
            Family("xtn-edge-shapes", xtn_edge_scripts(rng, tier), monitor=monitor),
            Family("window-edge-states", state_scripts(random.Random(seed * 1000 + 310), tier), monitor=monitor),
            # the AES-GCM paths (OpenSSL configuration): malformed / truncated / extended / bit-flipped packets, small capacities
            Family("gcm-malformed-packets", with_aead(malformed_scripts, random.Random(seed * 1000 + 110), tier, n=(12 if tier == "quick" else 200)),
                   monitor=monitor, config="openssl"),
            Family("gcm-window-edge-states", with_aead(state_scripts, random.Random(seed * 1000 + 410), tier, n=(8 if tier == "quick" else 80)), monitor=monitor, config="openssl"),
            Family("gcm-cryptex-6904-crafted", gcm_crafted_scripts(random.Random(seed * 1000 + 210), tier), monitor=monitor, config="openssl")]
