"""C02 — SRTCP round trip: unprotect_rtcp(protect_rtcp(p)) returns exactly p."""
import random
from lib.engine import Family
from lib.gen import *
from lib.apigen import *

THEOREMS = ["cipher_encrypt_involutive", "protect_rtcp_wire", "rtcp_wire_trailer", "rtcp_round_trip_fun", "rtcp_round_trip", "rtcp_protect_unprotect"]
TRUSTED_BASE = ["Coq 8.16.1 kernel", "tools/gen_constants.py", "extraction (ExtrOcamlBasic) + harness/mdrv.ml",
                "harness/cdrv*.c driving srtp_protect_rtcp / srtp_unprotect_rtcp (ASan/UBSan)", "Gallina AES / SHA-1 / HMAC",
                "modelled not verified: the SRTCP paths of srtp/srtp.c"]
ASSUMPTIONS = ["internal crypto backend only"]


def scripts(rng, tier, n=None):
    out = []
    n = n or (30 if tier == "quick" else 500)
    for k in range(n):
        ssrc = rng.randrange(2, 1 << 32)
        p, _ = strat_policy(rng, k, ssrc=ssrc, valid=True)
        wild = rng.random() < 0.35 and k % 3 != 1
        if wild:
            # wildcard policies on both sides: the working streams are clones of the template
            L = [p.line(1, ssrc_type=SSRC_ANY_OUT), p.line(2, ssrc_type=SSRC_ANY_IN), "create 1 1", "create 2 2"]
        else:
            L = [p.line(1), "create 1 1", "create 2 1"]
        if not wild and (k % 3 == 1 or rng.random() < 0.2):
            # every third script starts the sender's SRTCP index high: the index enters the IV in two 16-bit halves, and the
            # upper half is zero below 2^16 (stratified: a random draw left high indices with confidentiality out for some seeds)
            st = [0x10000, 0x12345, 0x7ffffff0, 0xfffe, 0x00ff00ff][(k // 3) % 5] if k % 3 == 1 else rng.choice([100, 0x10000, 0x7ffffff0])
            L.append(f"poke_rtcp 1 0 {H(ssrc)} {H(st)}")
        for i in range(8 if tier == "quick" else 30):
            pkt = rtcp_packet(ssrc, rand_key(rng, rng.choice([0, 4, 16, 20, 100, 4 * rng.randrange(0, 300)])), pt=rng.choice([200, 201]))
            mi = rng.randrange(len(p.keys)) if p.use_mki else rng.choice([0, 0, 1, 3])      # without MKIs the argument is documented as ignored
            L.append(pkt_op("protect_rtcp", 1, pkt, cap=len(pkt) + p.trailer(False), mode=rng.choice([0, 1, 2]), mki_index=mi)); a = len(L)
            L.append(f"peek 1 0 {H(ssrc)}")
            L.append(pkt_op("unprotect_rtcp", 2, f"@{a:x}", cap=len(pkt) + p.trailer(False), mode=rng.choice([0, 1, 2])))
            L.append(f"# RT {p.trailer(False):x} {p.rtcp[4]:x} {p.mki_size if p.use_mki else 0:x} {1 if p.rtcp[5] & 1 else 0} {1 if p.rtcp[0] in (GCM128, GCM256) else 0}")
        L += ["dealloc 1", "dealloc 2"]
        out.append((f"rtcp-rt-{k}", "\n".join(L) + "\n"))
    return out


def monitor(script, c):
    hits = []
    sl = script.split("\n")
    out = {int(l.split()[0]): l.split() for l in c if l.strip()}
    for i, l in enumerate(sl, 1):
        t = l.split()
        if len(t) > 2 and t[0] == "#" and t[1] == "RT":
            pr, pk, un = out.get(i - 3, []), out.get(i - 2, []), out.get(i - 1, [])
            if len(pr) < 5 or len(un) < 5 or int(pr[2], 16) != 0:
                continue
            orig = sl[i - 4].split("|")[1].strip()
            if int(un[2], 16) != 0:
                hits.append({"what": "peer session fails to unprotect an SRTCP packet srtp_protect_rtcp produced", "signature": "rtcp-roundtrip-status",
                             "detail": f"line {i-1}: status {un[2]}"}); break
            if un[4] != orig:
                hits.append({"what": "unprotect_rtcp(protect_rtcp(p)) is not byte-identical to p", "signature": "rtcp-roundtrip-bytes",
                             "detail": f"line {i-1}"}); break
            # trailer: E flag and index at len(p) .. len(p)+4 are what the sender's counter says
            wire = bytes.fromhex(pr[4])
            n = len(orig) // 2
            if len(t) > 6 and t[6] == "1":
                n += int(t[3], 16)          # RFC 7714: the GCM tag precedes the SRTCP trailer
            tr = int.from_bytes(wire[n:n + 4], "big")
            conf = t[5] == "1"
            idx = int(pk[6], 16) if len(pk) > 6 else None
            if (tr >> 31 == 1) != conf or (idx is not None and (tr & 0x7fffffff) != idx):
                hits.append({"what": "SRTCP trailer does not carry the E flag of the policy and the sender's index", "signature": "rtcp-trailer-fields",
                             "detail": f"line {i-3}: trailer {tr:x} index {idx} conf {conf}"}); break
    return hits


def families(tier, seed):
    rng = random.Random(seed * 1000 + 2)
    rng2 = random.Random(seed * 1000 + 102)
    return [Family("rtcp-roundtrip", scripts(rng, tier), monitor=monitor),
            Family("gcm-rtcp-roundtrip", with_aead(scripts, rng2, tier, n=(10 if tier == "quick" else 200)), monitor=monitor, config="openssl")]
