"""C14 — session behaves as a map from SSRC to stream, with wildcard fallback."""
import random
from lib.engine import Family
from lib.gen import *
from lib.apigen import *

THEOREMS = ["list_get_insert", "list_get_remove_other", "remove_ok_iff_present"]
TRUSTED_BASE = ["Coq 8.16.1 kernel", "tools/gen_constants.py", "extraction (ExtrOcamlBasic) + harness/mdrv.ml",
                "harness/cdrv*.c driving srtp_create/add/remove/update, ROC accessors and packet calls (ASan/UBSan)",
                "modelled not verified: srtp_stream_list_* (array with capacity doubling), stream lookup and cloning in srtp/srtp.c"]
ASSUMPTIONS = ["duplicate explicit SSRCs are not refused by the API: the model keeps the implementation's behaviour (first inserted wins); "
               "the dictionary monitor only issues duplicate-free histories"]


def scenario(rng, k, tier):
    """sender session 1 driven by table ops; receiver sessions: one per distinct key so that 'which key was used' is observable"""
    nkeys = 4
    keys = [rand_key(rng, 30) for _ in range(nkeys)]
    has_wild = rng.random() < 0.7
    # every policy of a script (explicit, wildcard, receivers) has the same crypto parameters and differs in the key only; the
    # services of the RTP and RTCP halves may differ (a clone must process SRTCP with the RTCP half of the template's policy)
    sr, sc = [(3, 3), (3, 2), (2, 3), (2, 2)][k % 4]
    cpk = dict(rtp=cp(serv=sr), rtcp=cp(serv=sc))
    L = []
    # policy ids: 10+i explicit with key i (ssrc filled per use), 20+i wildcard with key i, receivers 30+i (wildcard inbound, key i)
    for i in range(nkeys):
        L.append(default_policy(rng, 0, ssrc_type=SSRC_ANY_IN, keys=[(keys[i], b"")], **cpk).line(30 + i))
        L.append(f"create {H(10 + i)} {H(30 + i)}")
    wild_key = rng.randrange(nkeys)
    first = []
    wild_allow = rng.random() < 0.5          # allow_repeat_tx of the wildcard policy: clones must inherit it, also after a re-key
    allow = {}                                # allow_repeat_tx of the explicit streams
    if has_wild:
        L.append(default_policy(rng, 0, ssrc_type=SSRC_ANY_OUT, keys=[(keys[wild_key], b"")], allow_repeat=wild_allow, **cpk).line(20))
        first.append(20)
    L.append("create 1 " + " ".join(f"{x:x}" for x in first))
    table = {}        # ssrc -> key index (explicit)
    dup = {}          # ssrc -> key index of an explicit stream added BEHIND a clone of the same SSRC (the first entry wins while it exists)
    cloned = set()
    pool = ssrc_pool(rng, 12 if tier == "quick" else 60)
    seq = {}
    nops = 60 if tier == "quick" else 500
    for step in range(nops):
        r = rng.random()
        s = rng.choice(pool)
        if r < 0.3 and s not in table and s not in cloned:
            ki = rng.randrange(nkeys)
            allow[s] = rng.random() < 0.5
            L.append(default_policy(rng, s, keys=[(keys[ki], b"")], allow_repeat=allow[s], **cpk).line(5))
            L.append("add 1 5"); L.append(f"# A {s:x} {ki}")
            table[s] = ki
        elif r < 0.34 and s in cloned and s not in table and s not in dup:
            # srtp_stream_add does not refuse an SSRC that already has a (cloned) stream: the new entry goes behind it and takes over
            # only when the first one is removed — whatever else is removed from the table in between
            ki = rng.randrange(nkeys)
            allow[s] = wild_allow
            L.append(default_policy(rng, s, keys=[(keys[ki], b"")], allow_repeat=wild_allow, **cpk).line(5))
            L.append("add 1 5")
            dup[s] = ki
        elif r < 0.42:
            L.append(f"remove 1 {H(s)}"); L.append(f"# D {s:x} {1 if (s in table or s in cloned) else 0}")
            for i in range(nkeys):
                L.append(f"remove {H(10 + i)} {H(s)}")     # a re-created sender stream restarts its SRTCP index: the receivers forget the SSRC too
            table.pop(s, None); cloned.discard(s)
            if s in dup:
                table[s] = dup.pop(s)          # the entry behind it is now the first match
        elif r < 0.5:
            L.append(f"getroc 1 {H(s)}"); L.append(f"# G {s:x} {1 if (s in table or s in cloned) else 0}")
        elif r < 0.55:
            L.append(f"setroc 1 {H(s)} 0"); L.append(f"# G {s:x} {1 if (s in table or s in cloned) else 0}")
        elif r < 0.6 and has_wild:
            # a second wildcard policy must be refused
            L.append(default_policy(rng, 0, ssrc_type=rng.choice([SSRC_ANY_OUT, SSRC_ANY_IN]), keys=[(keys[0], b"")], **cpk).line(6))
            L.append("add 1 6"); L.append("# W")
        elif r < 0.62 and has_wild:
            # re-key the wildcard: clones (present and future) switch to the new key, explicit streams keep theirs
            ki = rng.randrange(nkeys)
            L.append(default_policy(rng, 0, ssrc_type=SSRC_ANY_OUT, keys=[(keys[ki], b"")], allow_repeat=wild_allow, **cpk).line(8))
            L.append("update 1 8"); L.append("# V")
            wild_key = ki
        elif r < 0.67 and s in table:
            # an update the library must refuse (window size it cannot handle): the SSRC keeps its stream and its key
            ki = rng.randrange(nkeys)
            bad = default_policy(rng, s, keys=[(keys[ki], b"")], allow_repeat=allow.get(s, False), **cpk); bad.window = rng.choice([10, 63, 40000])
            L.append(bad.line(7)); L.append("update 1 7"); L.append(f"# UF {s:x}")
        elif r < 0.70 and s in table:
            ki = rng.randrange(nkeys)
            L.append(default_policy(rng, s, keys=[(keys[ki], b"")], allow_repeat=allow.get(s, False), **cpk).line(7))
            L.append("update 1 7"); L.append(f"# U {s:x} {ki}")
            table[s] = ki
        elif r < 0.80:
            # SRTCP through the same dispatch: explicit stream first, else a clone of the wildcard template
            rp = rtcp_packet(s, bytes([step & 0xff] * 12))
            L.append(pkt_op("protect_rtcp", 1, rp, cap=len(rp) + 30)); a = len(L)
            exp = table[s] if s in table else (wild_key if has_wild else -1)
            if s not in table and has_wild:
                cloned.add(s)
            for i in range(nkeys):
                L.append(pkt_op("unprotect_rtcp", 10 + i, f"@{a:x}", cap=len(rp) + 30))
            L.append(f"# P {s:x} {exp}")
        else:
            q = seq.get(s, rng.choice([1, 500]))
            seq[s] = q + 1
            pkt = rtp_packet(s, q & 0xffff, payload=bytes([step & 0xff] * 10))
            L.append(pkt_op("protect", 1, pkt, cap=len(pkt) + 20)); a = len(L)
            exp = table[s] if s in table else (wild_key if has_wild else -1)
            if s not in table and has_wild:
                cloned.add(s)
            # which key authenticates it?
            for i in range(nkeys):
                L.append(pkt_op("unprotect", 10 + i, f"@{a:x}", cap=len(pkt) + 20))
            L.append(f"# P {s:x} {exp}")
            if exp >= 0 and rng.random() < 0.35:
                # the same packet once more: whether a repeated index may be sent is part of the policy the SSRC is processed with
                L.append(pkt_op("protect", 1, pkt, cap=len(pkt) + 20))
                L.append(f"# P2 {s:x} {1 if (allow.get(s, False) if s in table else wild_allow) else 0}")
        if step % 20 == 19:
            L.append("nstreams 1"); L.append(f"# N {len(table) + len(cloned) + len(dup):x}")
    L.append("dealloc 1")
    for i in range(nkeys):
        L.append(f"dealloc {H(10 + i)}")
    return "\n".join(L) + "\n"


def monitor(script, c):
    hits = []
    sl = script.split("\n")
    out = {int(l.split()[0]): l.split() for l in c if l.strip()}
    def st(i):
        o = out.get(i, [])
        return int(o[2], 16) if len(o) > 2 else None
    for i, l in enumerate(sl, 1):
        t = l.split()
        if len(t) < 2 or t[0] != "#":
            continue
        k = t[1]
        if k == "A" and st(i - 1) != 0:
            hits.append({"what": "srtp_stream_add of a new explicit SSRC failed", "signature": "map-add-failed", "detail": f"line {i-1} status {st(i-1)}"}); break
        if k == "D":
            want_ok = t[3] == "1"
            if (st(i - 1) == 0) != want_ok:
                hits.append({"what": "srtp_stream_remove does not succeed exactly for SSRCs that have a stream", "signature": "map-remove",
                             "detail": f"line {i-1}: status {st(i-1)} present={want_ok}"}); break
        if k == "G":
            want_ok = t[3] == "1"
            if (st(i - 1) == 0) != want_ok or (not want_ok and st(i - 1) != 2):
                hits.append({"what": "ROC accessor does not succeed exactly for SSRCs that have a stream (bad_param otherwise)", "signature": "map-accessor",
                             "detail": f"line {i-1}: status {st(i-1)} present={want_ok}"}); break
        if k == "W" and st(i - 1) == 0:
            hits.append({"what": "a second wildcard policy was accepted", "signature": "map-second-wildcard", "detail": f"line {i-1}"}); break
        if k == "V" and st(i - 1) != 0:
            hits.append({"what": "update of the wildcard policy failed", "signature": "map-wild-update-failed", "detail": f"line {i-1}"}); break
        if k == "UF" and st(i - 1) == 0:
            hits.append({"what": "an update with a window size the library cannot handle was accepted", "signature": "map-bad-update-accepted", "detail": f"line {i-1}"}); break
        if k == "U" and st(i - 1) != 0:
            hits.append({"what": "update of an existing explicit stream failed", "signature": "map-update-failed", "detail": f"line {i-1}"}); break
        if k == "P2":
            ps = st(i - 1)
            want = 0 if t[3] == "1" else 9
            if ps != want:
                hits.append({"what": "repeated transmission of a packet index not handled according to the policy of the SSRC's stream (allow_repeat_tx of the explicit policy, else of the wildcard policy)",
                             "signature": "map-wrong-policy-repeat", "detail": f"line {i-1}: status {ps}, expected {want}"}); break
        if k == "N":
            o = out.get(i - 1, [])
            if len(o) > 2 and int(o[2], 16) != int(t[2], 16):
                hits.append({"what": "number of streams differs from the dictionary", "signature": "map-count", "detail": f"line {i-1}: {o[2]} vs {t[2]}"}); break
        if k == "P":
            exp = int(t[3])
            ps = st(i - 5)
            if exp < 0:
                if ps != 0xd:
                    hits.append({"what": "packet for an SSRC without stream or wildcard did not fail with no_ctx", "signature": "map-no-ctx", "detail": f"line {i-5}: {ps}"}); break
                continue
            if ps != 0:
                hits.append({"what": "protect failed for an SSRC that has a stream or a wildcard", "signature": "map-protect-failed", "detail": f"line {i-5}: {ps}"}); break
            oks = [j for j in range(4) if st(i - 4 + j) == 0]
            if oks != [exp]:
                hits.append({"what": "packet was not processed with the keys of its SSRC's stream (explicit first, else wildcard)", "signature": "map-wrong-key",
                             "detail": f"line {i-5}: authenticates under keys {oks}, expected [{exp}]"}); break
    return hits


def families(tier, seed):
    rng = random.Random(seed * 1000 + 14)
    n = 8 if tier == "quick" else 100
    return [Family("stream-table", [(f"map-{k}", scenario(rng, k, tier)) for k in range(n)], monitor=monitor)]
