"""C15 — re-keying keeps sequence state, switches keys, and fails safely."""
import random
from lib.engine import Family
from lib.gen import *
from lib.apigen import *

THEOREMS = ["update_specific_ok_effect", "update_fail_preserves"]
TRUSTED_BASE = ["Coq 8.16.1 kernel", "tools/gen_constants.py", "extraction (ExtrOcamlBasic) + harness/mdrv.ml",
                "harness/cdrv*.c driving srtp_update / srtp_stream_update and traffic on libsrtp (ASan/UBSan)",
                "modelled not verified: stream_update, update_template_streams in srtp/srtp.c"]
ASSUMPTIONS = ["idealised MAC for 'old-key packets are rejected' (verdicts are compared with the model, which computes the real HMAC)"]


def scenario(rng, k, tier):
    wildcard = rng.random() < 0.4 and k % 4 not in (1, 2)
    ssrc = rng.randrange(2, 1 << 32)
    other = ssrc ^ 0x55
    use_mki = rng.random() < 0.3
    def mkpol(ssrc_type, s, valid=True, bad_kind=None):
        keys = None
        msz = 0
        if use_mki:
            msz = 4
            keys = [(rand_key(rng, 30), bytes([i, 1, 2, 3])) for i in range(2)]
        p = default_policy(rng, s, ssrc_type=ssrc_type, window=rng.choice([128, 1024]))
        if use_mki:
            p.keys = keys; p.use_mki = True; p.mki_size = msz; p.use_key_field = False
        if not valid:
            w = rng.randrange(4) if bad_kind is None else bad_kind
            if w == 0: p.window = rng.choice([1, 10, 63, 32768])
            elif w == 1: p.rtp = cp(keylen=31)
            elif w == 2: p.rtp = cp(auth=2)
            else: p.rtcp = cp(authkeylen=21)
        return p
    L = []
    if wildcard:
        ps = mkpol(SSRC_ANY_OUT, 0); pr = mkpol(SSRC_ANY_IN, 0); pr.keys = ps.keys
    else:
        ps = mkpol(SSRC_SPECIFIC, ssrc); pr = ps
    po = mkpol(SSRC_SPECIFIC, other)       # an explicit stream that is never addressed
    L += [ps.line(1), pr.line(2), po.line(3), "create 1 1 3", "create 2 2 3"]
    idx = {ssrc: rng.choice([0, 65500, 30000]), other: 5}
    late_join = (k % 4 == 1) and not wildcard
    if late_join:
        # both ends are told the ROC before any packet and are RE-KEYED before the first one arrives; the first sequence number
        # lies in the far half of the sequence space: the imposed ROC stays pending across the update and is applied to it
        r0 = rng.choice([1, 5, 0x1234])
        L += [f"setroc 1 {H(ssrc)} {H(r0)}", f"setroc 2 {H(ssrc)} {H(r0)}"]
        pj = mkpol(SSRC_SPECIFIC, ssrc)
        L += [pj.line(6), "stream_update 1 6" if k % 8 == 1 else "update 1 6", "stream_update 2 6" if k % 8 == 1 else "update 2 6"]
        idx[ssrc] = (r0 << 16) | rng.choice([40000, 65000, 33000])
    def traffic(n, s=ssrc, tag="t"):
        for _ in range(n):
            pkt = rtp_packet(s, idx[s] & 0xffff, payload=bytes([idx[s] & 0xff] * 12))
            L.append(pkt_op("protect", 1, pkt, cap=len(pkt) + 40)); a = len(L)
            L.append(pkt_op("unprotect", 2, f"@{a:x}", cap=len(pkt) + 40))
            L.append(f"# {tag} {s:x} {idx[s]:x}")
            idx[s] += rng.choice([1, 1, 2, 40])
            rp = rtcp_packet(s, b"\x01" * 16)
            L.append(pkt_op("protect_rtcp", 1, rp, cap=len(rp) + 40)); a = len(L)
            L.append(pkt_op("unprotect_rtcp", 2, f"@{a:x}", cap=len(rp) + 40))
    traffic(rng.choice([3, 8]))
    traffic(2, other, "o")
    # an old-key packet with a fresh index, delivered only after the update
    pkt = rtp_packet(ssrc, (idx[ssrc] + 3) & 0xffff, payload=b"oldkeyoldkey")
    L.append(pkt_op("protect", 1, pkt, cap=len(pkt) + 40)); old_line = len(L)
    L.append(f"# hold {old_line:x}")
    for rnd in range(rng.choice([1, 2, 3])):
        valid = rng.random() < 0.55
        bad_kind = None
        if k % 4 == 2 and rnd == 0:
            # an explicit stream, a policy that passes validation and allocation and is refused when the stream is initialised
            # (window size): the stream keeps working with its old keys
            valid, bad_kind = False, 0
        if wildcard:
            ns = mkpol(SSRC_ANY_OUT, 0, valid); nr = mkpol(SSRC_ANY_IN, 0, valid); nr.keys = ns.keys
            nr.window, nr.rtp, nr.rtcp = ns.window, ns.rtp, ns.rtcp
        else:
            ns = mkpol(SSRC_SPECIFIC, ssrc, valid, bad_kind); nr = ns
        L += [ns.line(4), nr.line(5)]
        L.append(f"peek 1 0 {H(ssrc)}"); L.append(f"peek 2 0 {H(ssrc)}")
        upd = "update" if rng.random() < 0.5 else "stream_update"
        L.append(f"{upd} 1 4"); L.append(f"{upd} 2 5")
        L.append(f"# upd {'valid' if valid else 'invalid'}")
        L.append(f"peek 1 0 {H(ssrc)}"); L.append(f"peek 2 0 {H(ssrc)}")
        if valid:
            L.append(pkt_op("unprotect", 2, f"@{old_line:x}", cap=200))
            L.append("# oldkey")
        idx[ssrc] += 4
        traffic(rng.choice([2, 5]))
        traffic(1, other, "o")
    L += ["nstreams 1", "nstreams 2", "dealloc 1", "dealloc 2"]
    return "\n".join(L) + "\n"


def monitor(script, c):
    hits = []
    sl = script.split("\n")
    out = {int(l.split()[0]): l.split() for l in c if l.strip()}
    n = 0
    last_update_status = None
    for i, l in enumerate(sl, 1):
        t = l.split()
        if not t:
            continue
        if t[0] == "#" and t[1] in ("t", "o"):
            # the two preceding lines are protect / unprotect of an in-order packet
            pr, un = out.get(i - 2, []), out.get(i - 1, [])
            if len(pr) > 2 and len(un) > 2:
                if int(pr[2], 16) != 0 or int(un[2], 16) != 0:
                    what = ("traffic on a stream stops working after an update that returned an error"
                            if last_update_status not in (None, 0) else
                            "traffic does not continue across a successful update")
                    if t[1] == "o":
                        what = "an explicit stream not addressed by the update stopped working"
                    hits.append({"what": what, "signature": "update-" + ("fail-loses-stream" if last_update_status not in (None, 0) else "breaks-traffic") + ("-other" if t[1] == "o" else ""),
                                 "detail": f"line {i-2}: protect {pr[2]} unprotect {un[2]} (last update status {last_update_status})"})
                    return hits
                sent = bytes.fromhex(sl[i - 3].split("|")[1].strip())
                if len(un) > 4 and un[4] != sent.hex():
                    hits.append({"what": "packet does not round-trip after update", "signature": "update-roundtrip",
                                 "detail": f"line {i-1}"})
                    return hits
        elif t[0] in ("update", "stream_update"):
            o = out.get(i, [])
            if len(o) > 2:
                last_update_status = int(o[2], 16) if t[1] == "2" or last_update_status in (None, 0) else last_update_status
        elif t[0] == "#" and t[1] == "upd":
            o1, o2 = out.get(i - 2, []), out.get(i - 1, [])
            s1 = int(o1[2], 16) if len(o1) > 2 else None
            s2 = int(o2[2], 16) if len(o2) > 2 else None
            last_update_status = s1 if s1 else s2
            p1b, p2b = out.get(i - 4, []), out.get(i - 3, [])
            p1a, p2a = out.get(i + 1, []), out.get(i + 2, [])
            # index (field 3) and SRTCP window start (field 6) preserved; on failure the whole stream state is
            for (pb, pa, st, who) in ((p1b, p1a, s1, "sender"), (p2b, p2a, s2, "receiver")):
                if len(pb) > 6 and int(pb[2], 16) == 0:
                    if len(pa) < 7 or int(pa[2], 16) != 0:
                        hits.append({"what": f"stream is gone after srtp_update returned status {st}",
                                     "signature": "update-" + ("fail" if st else "ok") + "-loses-stream",
                                     "detail": f"line {i}: {who} peek before {pb[:4]} after {pa[:4]}"})
                        return hits
                    if pb[3] != pa[3] or pb[6] != pa[6]:
                        hits.append({"what": "rollover counter / sequence / SRTCP index not preserved by update",
                                     "signature": "update-state-not-preserved", "detail": f"{who}: {pb[3]}->{pa[3]} rtcp {pb[6]}->{pa[6]}"})
                        return hits
                    if st and pb[2:] != pa[2:]:
                        hits.append({"what": "failed update changed the state of a working stream",
                                     "signature": "update-fail-changes-state", "detail": f"{who}: {pb} -> {pa}"})
                        return hits
        elif t[0] == "#" and t[1] == "oldkey":
            o = out.get(i - 1, [])
            if len(o) > 2 and int(o[2], 16) == 0:
                hits.append({"what": "packet made with the old keys accepted after a successful update",
                             "signature": "update-old-key-accepted", "detail": f"line {i-1}"})
                return hits
    return hits


def replay_scenario(rng, k, tier, fixed=False):
    """updates under which earlier packets stay authentic (same policy again, or MKI rotation {K1} -> {K1, K2}): packets accepted
    before the update and delivered again afterwards are replays and must be refused, SRTP and SRTCP alike"""
    wildcard = (not fixed) and rng.random() < 0.4
    ssrc = 0xcafebabe if fixed else rng.randrange(2, 1 << 32)
    mki = (not fixed) and rng.random() < 0.5
    k1, k2 = rand_key(rng, 30), rand_key(rng, 30)
    def pol(ssrc_type, keys):
        p = default_policy(rng, 0 if wildcard else ssrc, ssrc_type=ssrc_type, window=128 if fixed else rng.choice([64, 128, 1024]))
        if mki:
            p.keys = keys; p.use_mki = True; p.mki_size = 2; p.use_key_field = False
        else:
            p.keys = [(k1, b"")]
        return p
    st, rt = (SSRC_ANY_OUT, SSRC_ANY_IN) if wildcard else (SSRC_SPECIFIC, SSRC_SPECIFIC)
    keys1 = [(k1, b"\x01\x01")]
    keys2 = [(k1, b"\x01\x01"), (k2, b"\x02\x02")]
    L = [pol(st, keys1).line(1), pol(rt, keys1).line(2), "create 1 1", "create 2 2"]
    seq = 1 if fixed else rng.choice([1, 65530, 3000])
    rtp_lines, rtcp_lines = [], []
    for i in range(5 if fixed else rng.choice([3, 8, 20])):
        pkt = rtp_packet(ssrc, seq & 0xffff, payload=bytes([i] * 8)); seq += 1
        L.append(pkt_op("protect", 1, pkt, cap=len(pkt) + 40)); a = len(L); rtp_lines.append(a)
        L.append(pkt_op("unprotect", 2, f"@{a:x}", cap=len(pkt) + 40))
        rp = rtcp_packet(ssrc, bytes([i] * 8))
        L.append(pkt_op("protect_rtcp", 1, rp, cap=len(rp) + 40)); a = len(L); rtcp_lines.append(a)
        L.append(pkt_op("unprotect_rtcp", 2, f"@{a:x}", cap=len(rp) + 40))
    # the update: same policy again, or one more key
    L += [pol(st, keys2 if mki else keys1).line(4), pol(rt, keys2 if mki else keys1).line(5)]
    upd = "update" if fixed or rng.random() < 0.5 else "stream_update"
    L.append(f"{upd} 1 4"); L.append(f"{upd} 2 5")
    some = rtp_lines if fixed else rng.sample(rtp_lines, min(3, len(rtp_lines)))
    for a in some:
        L.append(pkt_op("unprotect", 2, f"@{a:x}", cap=100)); L.append(f"# rep rtp {a:x}")
    for a in (rtcp_lines if fixed else rng.sample(rtcp_lines, min(3, len(rtcp_lines)))):
        L.append(pkt_op("unprotect_rtcp", 2, f"@{a:x}", cap=100)); L.append(f"# rep rtcp {a:x}")
    L += ["dealloc 1", "dealloc 2"]
    return "\n".join(L) + "\n"


def replay_monitor(script, c):
    hits = []
    sl = script.split("\n")
    out = {int(l.split()[0]): l.split() for l in c if l.strip()}
    upd_ok = all(len(out.get(i, [])) > 2 and out[i][2] == "0" for i, l in enumerate(sl, 1) if l.startswith(("update ", "stream_update ")))
    for i, l in enumerate(sl, 1):
        t = l.split()
        if len(t) > 3 and t[0] == "#" and t[1] == "rep" and upd_ok:
            o = out.get(i - 1, []); first = out.get(int(t[3], 16) + 1, [])
            if len(o) > 2 and o[2] == "0" and len(first) > 2 and first[2] == "0":
                kind = t[2]
                if not any(h["signature"] == f"update-clears-{kind}-replay-window" for h in hits):
                    hits.append({"what": f"a {'SRTP' if kind == 'rtp' else 'SRTCP'} packet accepted before a successful update is accepted again after it (replay across the update)",
                                 "signature": f"update-clears-{kind}-replay-window", "detail": f"line {i-1}: second acceptance of the packet made at line {t[3]}"})
    return hits


def families(tier, seed):
    rng = random.Random(seed * 1000 + 15)
    n = 12 if tier == "quick" else 150
    rng2 = random.Random(seed * 1000 + 115)
    # corpus first (seed independent): the known finding update-clears-rtp-replay-window
    rep = [("corpus-update-replay", replay_scenario(random.Random(1515), 0, "quick", fixed=True))] + \
          [(f"urep-{k}", replay_scenario(rng2, k, tier)) for k in range(8 if tier == "quick" else 100)]
    return [Family("rekey-histories", [(f"rekey-{k}", scenario(rng, k, tier)) for k in range(n)], monitor=monitor),
            Family("update-replays", rep, monitor=replay_monitor)]
