"""C11 — length contract: outputs fit the announced sizes, small buffers are refused."""
import random
from lib.engine import Family
from lib.gen import *
from lib.apigen import *

THEOREMS = ["trailer_le_max", "protect_len", "small_buffer_refused"]
TRUSTED_BASE = ["Coq 8.16.1 kernel", "tools/gen_constants.py (SRTP_MAX_TRAILER_LEN, SRTP_MAX_SRTCP_TRAILER_LEN, SRTP_MAX_TAG_LEN, SRTP_MAX_MKI_LEN)",
                "extraction (ExtrOcamlBasic) + harness/mdrv.ml", "harness/cdrv*.c exact-size buffers + guard bytes, ASan/UBSan",
                "modelled not verified: capacity checks and length updates of the four packet functions, get_protect_trailer_length"]
ASSUMPTIONS = ["internal crypto configuration"]
SANITIZER_IS_VIOLATION = True
MAX_TRAILER, MAX_RTCP_TRAILER = 144, 148


def scripts(rng, tier, n=None):
    out = []
    n = n or (16 if tier == "quick" else 200)
    for k in range(n):
        ssrc = rng.randrange(2, 1 << 32)
        p, _ = strat_policy(rng, k, ssrc=ssrc, valid=True)
        if k % 8 == 5:
            # MKI switched off but an MKI size and MKI values left in the policy: the library refuses it (were it accepted, srtp_protect
            # would append mki_size octets that the trailer-length query and this generator do not count)
            p.keys = [(k_, bytes([9, 9, 9, i])) for i, (k_, _) in enumerate(p.keys)]; p.use_mki = False; p.mki_size = 4; p.use_key_field = False
        L = [p.line(1), "create 1 1", "create 2 1"]
        # multi-stream session for the "never more than reported" part
        q = rand_policy(rng, ssrc=ssrc ^ 9, valid=True, mki=p.use_mki)
        if p.use_mki:
            q.mki_size = p.mki_size
            q.keys = [(k_, m[:q.mki_size].ljust(q.mki_size, b"\1")) for k_, m in q.keys]
        L += [q.line(2), "create 3 1 2"]
        # a session holding a wildcard policy with a SHORT trailer next to the explicit stream: the query must still cover the explicit one
        wq = default_policy(rng, 0, ssrc_type=SSRC_ANY_OUT, rtp=cp(taglen=4), rtcp=cp(taglen=4))
        L += [wq.line(3), "create 4 3 1"]
        for mi in range(len(p.keys) if p.use_mki else 1):
            L += [f"trailer 1 1 {H(mi)}", f"trailer 1 0 {H(mi)}", f"trailer 3 1 {H(mi)}", f"trailer 3 0 {H(mi)}", f"trailer 4 1 {H(mi)}", f"trailer 4 0 {H(mi)}"]
        seq = 1
        for i in range(3):
            pkt = rand_rtp(rng, ssrc, seq, ids=list(p.enc_xtn) or None)
            rp = rand_rtcp(rng, ssrc)
            mi = rng.randrange(len(p.keys)) if p.use_mki else 0
            need = len(pkt) + p.trailer(True)
            caps = sorted(set([0, 1, len(pkt) - 1, len(pkt), need - 1, need, need + 1, need + 32] + [rng.randrange(0, need + 33) for _ in range(3)]))
            good = None
            for cap in caps:
                if cap < 0: continue
                # a failed protect still advances the sender's window; use a fresh sequence number each time
                pk = pkt[:2] + (seq & 0xffff).to_bytes(2, "big") + pkt[4:]
                seq += 1
                L.append(pkt_op("protect", 1, pk, cap=cap, mode=rng.choice([0, 1, 2]), mki_index=mi))
                L.append(f"# P {len(pk):x} {p.trailer(True):x} {cap:x}")
                if cap >= need: good = len(L) - 1
            if good:
                for cap in sorted(set([0, len(pkt) - 1, len(pkt), len(pkt) + 1, need])):
                    if cap < 0: continue
                    L.append(pkt_op("unprotect", 2, f"@{good:x}", cap=cap, mode=rng.choice([0, 1, 3])))
                    L.append(f"# U {need:x} {p.trailer(True):x} {cap:x} {good:x}")
            need = len(rp) + p.trailer(False)
            good = None
            for cap in sorted(set([0, len(rp), need - 1, need, need + 32, rng.randrange(0, need + 33)])):
                L.append(pkt_op("protect_rtcp", 1, rp, cap=cap, mode=rng.choice([0, 1, 2]), mki_index=mi))
                L.append(f"# Q {len(rp):x} {p.trailer(False):x} {cap:x}")
                if cap >= need: good = len(L) - 1
            if good:
                for cap in sorted(set([0, len(rp) - 1, len(rp), need])):
                    L.append(pkt_op("unprotect_rtcp", 2, f"@{good:x}", cap=cap, mode=rng.choice([0, 1, 3])))
                    L.append(f"# V {need:x} {p.trailer(False):x} {cap:x} {good:x}")
        L += ["dealloc 1", "dealloc 2", "dealloc 3", "dealloc 4"]
        out.append((f"len-{k}", "\n".join(L) + "\n"))
    return out


def monitor(script, c):
    hits = []
    sl = script.split("\n")
    out = {int(l.split()[0]): l.split() for l in c if l.strip()}
    trailers = {}
    accepted = set()
    for i, l in enumerate(sl, 1):
        t = l.split()
        if not t:
            continue
        if t[0] == "trailer":
            o = out.get(i, [])
            if len(o) > 3 and int(o[2], 16) == 0:
                trailers[(t[1], t[2], t[3])] = int(o[3], 16)
                lim = MAX_TRAILER if t[2] == "1" else MAX_RTCP_TRAILER
                if int(o[3], 16) > lim:
                    hits.append({"what": "reported trailer length exceeds SRTP_MAX_TRAILER_LEN / SRTP_MAX_SRTCP_TRAILER_LEN",
                                 "signature": "trailer-above-max", "detail": l}); return hits
        elif t[0] == "#" and t[1] in "PQUV":
            o = out.get(i - 1, [])
            if len(o) < 7:
                continue
            st, outlen = int(o[2], 16), int(o[3], 16)
            a, tr, cap = int(t[2], 16), int(t[3], 16), int(t[4], 16)
            kind = t[1]
            if o[6] == "0":
                hits.append({"what": "a byte at or beyond out + *out_len was written", "signature": "write-beyond-capacity", "detail": " ".join(o[:4])}); return hits
            if kind in "PQ":
                want = a + tr
                if st == 0 and outlen != want:
                    hits.append({"what": "protect output length is not input length + trailer length", "signature": "protect-len-" + kind,
                                 "detail": f"line {i-1}: len {outlen} expected {want}"}); return hits
                if st == 0 and cap < want:
                    hits.append({"what": "protect succeeded although *out_len was smaller than the packet produced", "signature": "small-buffer-accepted-" + kind,
                                 "detail": f"line {i-1}: cap {cap} < {want}"}); return hits
                if cap < want and st != 0x1c and st != 9 and st != 0xf:
                    hits.append({"what": "too-small output buffer not reported as buffer_small", "signature": "small-buffer-status-" + kind,
                                 "detail": f"line {i-1}: status {st}"}); return hits
                mi = sl[i - 2].split()[2]
                for sid in ("1", "3", "4"):
                    q = trailers.get((sid, "1" if kind == "P" else "0", mi))
                    if q is not None and st == 0 and ((sid == "1" and q != tr) or q < tr):
                        hits.append({"what": "trailer-length query disagrees with what protect appends", "signature": "trailer-query-" + kind,
                                     "detail": f"session {sid}: query {q} actual {tr}"}); return hits
            else:
                ref = out.get(int(t[5], 16), [])
                if len(ref) < 3 or int(ref[2], 16) != 0:
                    continue          # the packet fed in was not produced (protect refused it)
                want = a - tr
                if st == 0 and outlen != want:
                    hits.append({"what": "unprotect output length is not input length - trailer length", "signature": "unprotect-len-" + kind,
                                 "detail": f"line {i-1}: len {outlen} expected {want}"}); return hits
                if st == 0 and cap < want:
                    hits.append({"what": "unprotect succeeded although *out_len was smaller than the packet produced", "signature": "small-buffer-accepted-" + kind,
                                 "detail": f"line {i-1}"}); return hits
                # 0x1d: the documented refusal of cryptex with CSRCs under AES-GCM out of place, decided before the capacity test
                if cap < want and st not in (0x1c, 9, 10, 0x1d):
                    hits.append({"what": "too-small output buffer not reported as buffer_small", "signature": "small-buffer-status-" + kind,
                                 "detail": f"line {i-1}: status {st}"}); return hits
    return hits


def guard_monitor(script, c):
    hits = []
    for l in c:
        t = l.split()
        if len(t) > 6 and t[1] in ("protect", "unprotect", "protect_rtcp", "unprotect_rtcp") and t[6] == "0":
            hits.append({"what": "a byte at or beyond out + *out_len was written", "signature": "write-beyond-capacity:" + t[1], "detail": l[:160]})
            break
    return hits


def families(tier, seed):
    rng = random.Random(seed * 1000 + 11)
    from lib.props import C10
    # packets whose header fields point into the trailer, with output capacities around every length the
    # functions compute: no byte may land at or beyond the capacity whatever the status
    return [Family("capacities", scripts(rng, tier), monitor=monitor),
            Family("forged-lengths-small-capacity", C10.forged_scripts(rng, tier), monitor=guard_monitor),
            Family("malformed-small-capacity", C10.malformed_scripts(rng, tier)[: (12 if tier == "quick" else 150)], monitor=guard_monitor),
            # header-extension walks that end exactly at (or try to run past) out + *out_len: ragged last elements, empty payload,
            # no trailer, exact-size output (a walk that is one or two octets too lenient writes at out[len], out[len+1])
            Family("xtn-walk-at-the-end", C10.xtn_edge_scripts(random.Random(seed * 1000 + 211), tier), monitor=guard_monitor),
            Family("gcm-capacities", with_aead(scripts, random.Random(seed * 1000 + 111), tier, n=(8 if tier == "quick" else 120)), monitor=monitor, config="openssl")]
