"""C16 — srtp_stream_set_roc takes effect and later wraps still advance the ROC."""
import random
from lib.engine import Family
from lib.gen import *
from lib.apigen import *

THEOREMS = ["set_roc_effect", "set_roc_then_follows_wraps", "roc_accessors_bad_param"]
TRUSTED_BASE = ["Coq 8.16.1 kernel", "tools/gen_constants.py", "extraction (ExtrOcamlBasic) + harness/mdrv.ml",
                "harness/cdrv*.c driving srtp_stream_set_roc/get_roc/protect/unprotect of libsrtp (ASan/UBSan)",
                "modelled not verified: srtp_estimate_index, srtp_get_est_pkt_index, pending_roc handling in srtp/srtp.c"]
ASSUMPTIONS = ["ROC < 2^32-1 throughout", "authentic traffic (sender session with the same key)"]


def scenario(rng, k, tier):
    """sender S(1) and receiver R(2); both get set_roc(r) at some point; traffic continues over >= 2 wraps."""
    ssrc = rng.randrange(1, 1 << 32)
    xt = k % 4 == 2 or k % 5 == 3       # RFC 6904 ids configured and every packet carries a listed element (the header-extension IV is built from the same index)
    p = default_policy(rng, ssrc, window=rng.choice([128, 1024]), **({"enc_xtn": b"\x01"} if xt else {}))
    L = [p.line(1), "create 1 1", "create 2 1"]
    info = []          # (line_no, kind, data) for the monitor
    cur_roc = 0
    seq = rng.choice([0, 100, 32768, 60000, 65000, 65000, 65530, 65535])
    started = rng.random() < 0.75
    # stratified (the purely random draw left out, for some seeds, the two situations in which the imposed index lies within
    # 2^15 of the current one, i.e. the commit path WITHOUT index-advance):
    #   klass 1: a running stream that has reached ROC >= 1 is told its own current ROC
    #   klass 2: a running stream just below a wrap is told ROC+1 and the next packet is the first one after the wrap
    klass = k % 5
    if klass in (1, 2):
        started = True
        seq = rng.choice([65000, 65400, 65530]) if klass == 2 else rng.choice([60000, 65000])
    def send(seqv, expect_roc, refused_first=0):
        pkt = rtp_packet(ssrc, seqv & 0xffff, payload=bytes([seqv & 0xff] * 8), ext=(one_byte_ext([(1, b"zz")]) if xt else None))
        L.append(pkt_op("protect", 1, pkt, cap=len(pkt) + 20, mode=0))
        a = len(L)
        # deliveries the receiver must refuse WITHOUT losing the imposed ROC ("# X" = not judged): a damaged copy (bit flipped in
        # the payload or the tag), a call with an output buffer that is too small
        for _ in range(refused_first):
            L.append("# X")
            if rng.random() < 0.7:
                L.append(pkt_op("unprotect", 2, f"@{a:x}~{rng.randrange(8 * 12, 8 * (len(pkt) + 4)):x}", cap=len(pkt) + 20, mode=0))
            else:
                L.append(pkt_op("unprotect", 2, f"@{a:x}", cap=rng.choice([0, 4, len(pkt) - 1]), mode=rng.choice([1, 2])))
        L.append(pkt_op("unprotect", 2, f"@{a:x}", cap=len(pkt) + 20, mode=0))
        L.append(f"getroc 1 {H(ssrc)}"); L.append(f"getroc 2 {H(ssrc)}")
        info.append((a, expect_roc, pkt))
    true_idx = seq
    if started:
        for _ in range(rng.choice([1, 3, 10, 30]) if klass not in (1, 2) else (30 if klass == 1 else 3)):
            send(true_idx, true_idx >> 16)
            true_idx += rng.choice([1, 1, 2, 5, 3000, 3000, 9000]) if klass != 2 else rng.choice([1, 2])
    late_first = None
    if klass == 1:
        # ... and the first packet after set_roc is a LATE one: one index was skipped just before (never sent, inside every window)
        send(true_idx, true_idx >> 16)
        late_first = true_idx + 1
        true_idx += 2
        send(true_idx, true_idx >> 16)
        true_idx += 1
    if klass == 3:
        # klass 3: a running stream at ROC >= 1 with its sequence number in the lower half is told its own ROC again, and the
        # next packet is more than 2^15 ahead inside that ROC (index-advance path although the ROC does not change)
        true_idx = rng.choice([60000, 65000])
        while True:
            send(true_idx, true_idx >> 16)
            if (true_idx >> 16) >= 1 and (true_idx & 0xffff) < 25000:
                break
            true_idx += 5000
    # r relative to the ROC the next packet would naturally have: equal (no jump) or ahead; sometimes behind
    nat = true_idx >> 16
    r = nat + rng.choice([0, 0, 0, 1, 2, 7, 1000]) if rng.random() < 0.9 else max(0, nat - 1)
    if klass in (1, 3):
        r = nat
    elif klass == 2:
        r = nat + 1
    r = min(r, 0xfffffff0)
    if k % 6 == 5 and r >= nat:
        # the application corrects itself: a first request that no packet takes up, then the real one (which may equal the
        # stream's current ROC): the later call replaces the earlier one
        decoy = r + rng.choice([1, 2, 9])
        L.append(f"setroc 1 {H(ssrc)} {H(decoy)}"); L.append(f"setroc 2 {H(ssrc)} {H(decoy)}")
    L.append(f"setroc 1 {H(ssrc)} {H(r)}"); L.append(f"setroc 2 {H(ssrc)} {H(r)}")
    behind = r < nat
    if klass == 3:
        true_idx += rng.choice([32769, 33000, 40000])
    elif not behind and klass == 2:
        true_idx = (r << 16) | rng.randrange(0, 40)          # the natural continuation across the wrap
    elif not behind:
        true_idx = (r << 16) | (true_idx & 0xffff)
        # a third of the histories: the first packet after set_roc is far ahead (more than half the sequence space) inside
        # that same ROC, so it goes through the index-advance path even when r equals the current ROC
        low = true_idx & 0xffff
        if rng.random() < 0.35 and low < 30000 and late_first is None:      # (a late first packet takes up the imposed ROC itself)
            true_idx += rng.choice([32769, 33000, 40000, 65535 - low])
    # traffic through two further wraps with mild reordering
    steps = 0
    target = true_idx + 2 * 65536 + 2000
    stride = 4000 if tier == "quick" else 900
    pending = []
    first_refused = rng.choice([0, 0, 1, 1, 2, 3])
    if late_first is not None and (late_first >> 16) == r:
        send(late_first, r, first_refused)
        first_refused = 0
    while true_idx < target:
        send(true_idx, true_idx >> 16, first_refused)
        first_refused = 0
        if rng.random() < 0.2 and true_idx > 3:
            send(true_idx - rng.choice([1, 2, 3]), (true_idx) >> 16)   # late packet (may be replay)
        true_idx += rng.choice([1, 2, stride, stride, stride + 13])
    L.append(f"setroc 1 {H(ssrc ^ 1)} 5"); L.append(f"getroc 1 {H(ssrc ^ 1)}")
    return "\n".join(L) + "\n", behind


def monitor(script, c):
    """after set_roc(r) (r >= current ROC) every in-order packet is accepted by the peer and both sides'
    ROC equals the true ROC (which advances by one at every sequence wrap)."""
    hits = []
    sl = [l for l in script.split("\n") if l.strip()]
    out = {int(l.split()[0]): l.split() for l in c if l.strip()}
    set_seen = False
    r_set = None
    prev_seq = None
    roc = None
    base_roc = 0
    hi = None
    for n, l in enumerate(sl, 1):
        t = l.split()
        o = out.get(n, [])
        if t[0] == "setroc" and t[1] == "1" and (not set_seen or hi is None):
            if len(o) > 2 and int(o[2], 16) != 0:
                continue
            set_seen = True; r_set = int(t[3], 16)
        elif t[0] == "protect" and set_seen:
            pkt = bytes.fromhex(t[6])
            s = int.from_bytes(pkt[2:4], "big")
            if hi is None:
                # first packet after set_roc: processed with ROC r (if r was not behind)
                idx = (r_set << 16) | s
                if prev_state_roc is not None and r_set < prev_state_roc:
                    return hits   # r behind the current counter: outside the property's premise
                hi = idx
            else:
                # closest index to hi with this seq
                cands = [((hi >> 16) + d << 16) | s for d in (-1, 0, 1) if (hi >> 16) + d >= 0]
                idx = min(cands, key=lambda x: abs(x - hi))
            if len(o) < 3:
                continue
            st = int(o[2], 16)
            if idx > hi or hi == idx:
                if st != 0:
                    hits.append({"what": "after set_roc the sender stops accepting in-order packets (ROC no longer follows wraps)",
                                 "signature": "setroc-sender-stuck", "detail": f"line {n}: status {st} at index {idx:x}"})
                    return hits
                hi = max(hi, idx)
                # the peer must accept it and both get_roc must report idx>>16
                k = n + 1
                while k < len(sl) and sl[k - 1].strip() == "# X":
                    k += 2                     # deliveries that are refused on purpose
                ou = out.get(k, []); g1 = out.get(k + 1, []); g2 = out.get(k + 2, [])
                if len(ou) > 2 and int(ou[2], 16) != 0:
                    hits.append({"what": "after set_roc the receiver rejects an authentic in-order packet",
                                 "signature": "setroc-receiver-stuck", "detail": f"line {k}: status {ou[2]} at index {idx:x}"})
                    return hits
                for g, who in ((g1, "sender"), (g2, "receiver")):
                    if len(g) > 3 and int(g[2], 16) == 0 and int(g[3], 16) != idx >> 16:
                        if r_set == 0:
                            # 0 is the library's "no ROC pending" value: set_roc(0) is a no-op, the packet is estimated naturally
                            hits.append({"what": "srtp_stream_set_roc(.., 0) is a no-op: the next packet was processed with the natural estimate, not with ROC 0",
                                         "signature": "setroc-zero-is-noop", "detail": f"line {n}: roc {g[3]} after set_roc(0)"})
                            return hits
                        hits.append({"what": f"after set_roc the {who}'s ROC does not follow the sequence-number wraps",
                                     "signature": f"setroc-roc-wrong-{who}", "detail": f"line {n}: roc {g[3]} expected {idx>>16:x}"})
                        return hits
        elif t[0] == "getroc" and not set_seen and t[1] == "1":
            if len(o) > 3 and int(o[2], 16) == 0:
                prev_state_roc = int(o[3], 16)
        if not set_seen and t[0] == "create":
            prev_state_roc = 0
    # accessors on an SSRC without a stream
    for n, l in enumerate(sl, 1):
        t = l.split(); o = out.get(n, [])
        if t[0] in ("setroc", "getroc") and n >= len(sl) - 1 and len(o) > 2 and int(o[2], 16) != 2:
            hits.append({"what": "ROC accessor on an SSRC without a stream did not return bad_param",
                         "signature": "roc-accessor-no-stream", "detail": l})
    return hits


def corpus_setroc_zero():
    """known finding: set_roc(0) on a ROC-0 stream just before the sequence number wraps"""
    ssrc = 0xcafebabe
    p = default_policy(random.Random(16016), ssrc)
    L = [p.line(1), "create 1 1", "create 2 1"]
    def send(seqv):
        pkt = rtp_packet(ssrc, seqv & 0xffff, payload=bytes([seqv & 0xff] * 8))
        L.append(pkt_op("protect", 1, pkt, cap=len(pkt) + 20, mode=0))
        a = len(L)
        L.append(pkt_op("unprotect", 2, f"@{a:x}", cap=len(pkt) + 20, mode=0))
        L.append(f"getroc 1 {H(ssrc)}"); L.append(f"getroc 2 {H(ssrc)}")
    send(0xffff)
    L.append(f"setroc 1 {H(ssrc)} 0"); L.append(f"setroc 2 {H(ssrc)} 0")
    for q in (4, 5, 6):
        send(q)
    L.append(f"setroc 1 {H(ssrc ^ 1)} 5"); L.append(f"getroc 1 {H(ssrc ^ 1)}")
    return "\n".join(L) + "\n"


def families(tier, seed):
    rng = random.Random(seed * 1000 + 16)
    n = 15 if tier == "quick" else 120
    scripts = [("corpus-setroc-zero", corpus_setroc_zero())]
    for k in range(n):
        txt, behind = scenario(rng, k, tier)
        scripts.append((f"setroc-{k}", txt))
    gs = [(f"gsetroc-{k}", with_aead(scenario, random.Random(seed * 1000 + 116 + k), k, tier)[0]) for k in range(6 if tier == "quick" else 60)]
    return [Family("set-roc-histories", scripts, monitor=monitor),
            # srtp_protect_aead / srtp_unprotect_aead have their own copies of the pending-ROC handling
            Family("gcm-set-roc-histories", gs, monitor=monitor, config="openssl")]
