"""C06 — packet index (ROC) stays synchronised under reorder, loss and wrap."""
import random
from lib.engine import Family
from lib import gen
from lib.gen import H

THEOREMS = ["seq_constants", "guess_exact", "estimate_is_exact", "guess_is_closest",
            "no_roc_minus_one_at_stream_start", "receiver_follows_sender", "guess_wraps_at_max_roc"]
TRUSTED_BASE = ["Coq 8.16.1 kernel (coqc; vm_compute only in Examples)",
                "tools/gen_constants.py + constprobe.c (seq_num_median, seq_num_max from crypto/include/rdbx.h)",
                "extraction: ExtrOcamlBasic only; harness/mdrv.ml",
                "harness/cdrv.c driving srtp_index_guess / srtp_rdbx_estimate_index and the session API",
                "modelled not verified: crypto/replay/rdbx.c, srtp_estimate_index in srtp/srtp.c"]
ASSUMPTIONS = ["LP64: ssize_t is 64 bit, int is 32 bit (the casts in srtp_rdbx_check / estimate are modelled for that ABI)"]


def guess_scripts(tier, rng):
    rocs = [0, 1, 2, 0x7fffffff, 0x80000000, 0xfffffffe, 0xffffffff]
    seqs = [0, 1, 2, 32766, 32767, 32768, 32769, 65534, 65535]
    out = []
    lines = []
    for roc in rocs:
        for sl in seqs:
            for s in seqs:
                lines.append(f"guess {H((roc << 16) | sl)} {H(s)}")
    out.append(("guess-grid", "\n".join(lines) + "\n"))
    n = 2000 if tier == "quick" else 60000
    lines = []
    for _ in range(n):
        roc = rng.choice(rocs + [rng.randrange(1 << 32)])
        sl = rng.choice(seqs + [rng.randrange(65536)])
        d = rng.choice([-32769, -32768, -32767, -1, 0, 1, 32767, 32768, 32769, rng.randrange(-40000, 40000)])
        s = (sl + d) & 0xffff
        lines.append(f"guess {H((roc << 16) | sl)} {H(s)}")
        if len(lines) >= 2000:
            out.append((f"guess-rand-{len(out)}", "\n".join(lines) + "\n")); lines = []
    if lines:
        out.append((f"guess-rand-{len(out)}", "\n".join(lines) + "\n"))
    return out


def guess_monitor(script, c):
    """RFC 3711 3.3.1: for |true - local| < 2^15 the estimate is the true index.  Checked on
    the implementation's own output, independent of the model."""
    hits = []
    sl = [l for l in script.split("\n") if l.strip()]
    out = {int(l.split()[0]): l.split() for l in c if l.strip()}
    for n, l in enumerate(sl, 1):
        t = l.split()
        if t[0] != "guess":
            continue
        local, s = int(t[1], 16), int(t[2], 16)
        o = out.get(n)
        if not o or len(o) < 4:
            continue
        g, d = int(o[2], 16), int(o[3], 16)
        roc = local >> 16
        cands = [(v << 16) | s for v in (roc - 1, roc, roc + 1) if 0 <= v < (1 << 32)]
        best = min(abs(x - local) for x in cands)
        if g not in cands or (abs(g - local) != best and best < 32768):
            if roc in (0, 0xffffffff) and g not in cands:
                continue   # documented wrap behaviour at the ends of the ROC range
            hits.append({"what": "index estimate is not the closest of ROC-1, ROC, ROC+1",
                         "signature": "index-guess-not-closest", "detail": f"line {n}: {l} -> {' '.join(o)}"})
            break
        if g in cands and d != g - local:
            hits.append({"what": "index estimate: returned difference is not estimate - local index",
                         "signature": "index-guess-bad-delta", "detail": f"line {n}: {l} -> {' '.join(o)}"})
            break
    return hits


def est_scripts(tier, rng):
    """rdbx-level: estimate on a running window across wraps, initial seq anywhere"""
    out = []
    n_hist = 12 if tier == "quick" else 150
    for k in range(n_hist):
        ws = rng.choice([64, 65, 128, 1024, 32767])
        s0 = rng.choice([0, 1, 32767, 32768, 65535, rng.randrange(65536)])
        lines = [f"rdbx_init {H(ws)}"]
        idx = 0  # reference highest index
        true = s0
        first = True
        for _ in range(150 if tier == "quick" else 1200):
            step = rng.choice([1, 1, 1, 2, 3, 100, 5000, 20000, 32000])
            cand = true + step
            j = cand - rng.choice([0, 0, 0, 1, 2, 50, 1000, 30000]) if not first else cand
            j = max(j, 0)
            if abs(j - idx) >= 32768 and not first:
                j = cand
            if abs(j - idx) >= 32768 and not first:
                continue
            if first and j >= 65536:
                j = j & 0xffff
            lines.append(f"rdbx_est {H(j & 0xffff)}")
            delta = j - idx
            if j > idx or first:
                lines.append(f"rdbx_add {H(delta)}")
                idx = max(idx, j)
                true = max(true, j)
            first = False
        out.append((f"est-{k}", "\n".join(lines) + "\n"))
    return out


def families(tier, seed):
    rng = random.Random(seed * 1000 + 6)
    return [Family("index-guess", guess_scripts(tier, rng), monitor=guess_monitor),
            Family("rdbx-estimate", est_scripts(tier, rng)),
            Family("api-wraps", [(f"wrap-{k}", __import__("lib.apigen", fromlist=["x"]).replay_history(rng, tier, n_ssrc=1, steps=(120 if tier == "quick" else 900), wrap_prologue=(k % 2 == 0))[0])
                                 for k in range(8 if tier == "quick" else 80)],
                   monitor=lambda s, c: __import__("lib.apigen", fromlist=["x"]).replay_monitor(s, c, False)),
            # common non-zero starting ROC on both sides, damaged copies arriving before genuine packets, reorder around wraps
            Family("api-common-roc", [(f"croc-{k}", __import__("lib.apigen", fromlist=["x"]).replay_history(
                                           rng, tier, n_ssrc=1, steps=(100 if tier == "quick" else 700),
                                           common_roc=[1, 7, 0, 0x1234, 0xfffe][k % 5], damaged=0.25)[0])
                                      for k in range(10 if tier == "quick" else 60)],
                   monitor=lambda s, c: __import__("lib.apigen", fromlist=["x"]).replay_monitor(s, c, False)),
            # the same histories with srtp_update (unchanged policies) on both sides in between: a re-key keeps ROC and s_l, so
            # sender and receiver stay on the same index, in particular when it happens at ROC >= 1 with s_l above 2^15
            Family("api-rekey", [(f"rekey-{k}", __import__("lib.apigen", fromlist=["x"]).replay_history(
                                       rng, tier, n_ssrc=rng.choice([1, 2]), steps=(120 if tier == "quick" else 700),
                                       common_roc=rng.choice([None, 1, 1, 0x1234]), rekey=0.04)[0])
                                 for k in range(10 if tier == "quick" else 60)],
                   monitor=lambda s, c: __import__("lib.apigen", fromlist=["x"]).replay_monitor(s, c, False)),
            # index synchronisation through the AEAD functions (common ROC, damaged copies first, re-keys)
            Family("gcm-common-roc", [(f"gcroc-{k}", __import__("lib.apigen", fromlist=["x"]).with_aead(
                                           __import__("lib.apigen", fromlist=["x"]).replay_history, random.Random(seed * 1000 + 106 + k), tier, n_ssrc=1,
                                           steps=(100 if tier == "quick" else 600), common_roc=[1, 0, 0x1234][k % 3], damaged=0.25, rekey=(0.04 if k % 2 else 0.0))[0])
                                      for k in range(6 if tier == "quick" else 45)],
                   monitor=lambda s, c: __import__("lib.apigen", fromlist=["x"]).replay_monitor(s, c, False), config="openssl")]
