"""C19 — independent sessions can be used concurrently from different threads."""
import os, re, subprocess
from lib.engine import Family
from lib import vlib

THEOREMS = ["session_api_writes_no_global", "writers_are_configuration_only", "any_interleaving_equals_sequential"]
TRUSTED_BASE = ["Coq 8.16.1 kernel (vm_compute over the regenerated call-graph table)",
                "tools/gen_globals.py: clang 14 JSON AST -> per-function global writes / callees / debug-only regions (GlobalsGen.v, regenerated on every run)",
                "harness/threads.c + ThreadSanitizer build of libsrtp (supporting run)",
                "modelled not verified: the C sources; writes through pointers into shared objects are not seen by the AST walk"]
ASSUMPTIONS = ["debug logging off (writes inside `if (module.on)` are excluded, as the property says)",
               "heap objects of distinct sessions are disjoint (each object is allocated by the session that uses it; see C17)",
               "hardware memory model, libc and allocator internals are outside the theorem; ThreadSanitizer on the explored schedules only"]
RULE = "evaluations = API calls issued by the threaded harness (threads x rounds x calls) + functions in the regenerated call-graph table"


def families(tier, seed):
    # the kernel leaf / session transcripts are not what decides this property; one smoke script keeps the tie to the build
    return [Family("smoke", [("smoke", "kl_poke 5 0\nkl_upd\n")])]


def extra(tier, seed, ctx):
    hits = []
    tdir = vlib.build_c("tsan")
    n, rounds = (8, 15) if tier == "quick" else (16, 200)
    runs = 2 if tier == "quick" else 6
    stats = {"threads": n, "rounds": rounds, "runs": runs, "api_calls": 0, "races": 0, "mismatches": 0}
    env = dict(os.environ, TSAN_OPTIONS="halt_on_error=1:exitcode=66:second_deadlock_stack=1")
    for k in range(runs):
        try:
            r = subprocess.run([os.path.join(tdir, "threads"), str(n), str(rounds)], capture_output=True, text=True, timeout=900, env=env)
        except subprocess.TimeoutExpired:
            hits.append({"what": "threaded harness timed out", "signature": "threads-timeout", "detail": ""}); break
        stats["api_calls"] += n * rounds * 12 * 6
        if r.returncode == 66 or "ThreadSanitizer: data race" in r.stderr:
            stats["races"] += 1
            m = re.search(r"(Write|Read) of size \d+ at [^\n]+\n\s+#0 (\w+) ([^\n]+)", r.stderr)
            loc = f"{m.group(2)} {m.group(3)}" if m else "?"
            g = re.search(r"Location is global '([^']+)'", r.stderr)
            hits.append({"what": "data race between threads working on distinct sessions (ThreadSanitizer)",
                         "signature": "tsan-race:" + (g.group(1) if g else (m.group(2) if m else "?")),
                         "detail": loc, "script": f"# run: {tdir}/threads {n} {rounds}\n", "c": r.stderr.split("\n")[:60]})
            break
        if r.returncode == 1:
            stats["mismatches"] += 1
            hits.append({"what": "a session driven concurrently produced outputs different from its sequential run",
                         "signature": "threads-output-differs", "detail": r.stdout[-400:],
                         "script": f"# run: {tdir}/threads {n} {rounds}\n", "c": r.stdout.split("\n")})
            break
        if r.returncode != 0:
            hits.append({"what": f"threaded harness failed with exit code {r.returncode}", "signature": "threads-crash",
                         "detail": r.stderr[-600:], "script": "", "c": r.stderr.split("\n")[:40]})
            break
    # size of the regenerated table
    try:
        g = open(os.path.join(ctx["cdir"], "GlobalsGen.v")).read()
        stats["functions_in_call_graph"] = g.count('\n  ("')
    except OSError:
        pass
    return hits, stats
