"""C05 — SRTP replay protection: each packet index is accepted at most once."""
import random
from lib.engine import Family
from lib import gen
from lib.gen import H

THEOREMS = ["window_constants", "srtp_at_most_once", "srtp_reachable_invariant", "srtp_next_verdict", "srtp_step"]
TRUSTED_BASE = ["Coq 8.16.1 kernel (coqc; vm_compute only in the Example)",
                "tools/gen_constants.py + constprobe.c (window bounds 64 / 0x8000, default 128 scraped from srtp.c)",
                "extraction: ExtrOcamlBasic only; harness/mdrv.ml",
                "harness/cdrv.c + cdrv_api.c driving srtp_rdbx_* and srtp_unprotect of libsrtp built with ASan/UBSan",
                "modelled not verified: crypto/replay/rdbx.c, bitvector_* in crypto/math/datatypes.c, srtp_unprotect's replay path"]
ASSUMPTIONS = ["idealised MAC: a packet whose estimated index differs from its true index fails authentication (tag covers the ROC)",
               "indices below 2^48-2^16 (ROC < 2^32-1)",
               "Rdbx.v models the bit-vector as one number; word loop = N.shiftr proved in BitvecProofs (C18)"]


def rdbx_scripts(tier, rng):
    out = []
    sizes = [64, 65, 96, 127, 128, 129, 1024, 32767]
    n_hist, n_ops = (16, 250) if tier == "quick" else (200, 3000)
    for k in range(n_hist):
        ws = sizes[k % len(sizes)]
        ref = gen.RtpRef(ws)
        eff = ref.eff
        lines = [f"rdbx_init {H(ws)}"]
        meta = []
        hi = rng.choice([0, 0, 1, 65000, 32768])
        first = True
        for _ in range(n_ops):
            r = rng.random()
            if first:
                i = hi
            elif r < 0.35:
                i = ref.hi + 1
            elif r < 0.5:
                i = ref.hi + rng.choice([1, 2, 3, eff - 1, eff, eff + 1, 1000, 32767])
            elif r < 0.85:
                i = ref.hi - rng.choice([0, 1, 2, ws - 2, ws - 1, ws, ws + 1, eff - 2, eff - 1, eff, eff + 1, 2 * eff])
            else:
                i = rng.choice(sorted(ref.seen)[-30:]) if ref.seen else ref.hi
            if i < 0 or abs(i - ref.hi) >= 32768:
                continue
            s = i & 0xffff
            delta = i - ref.hi if not first else i
            lines.append(f"rdbx_est {H(s)}")
            lines.append(f"rdbx_check {H(delta)}")
            v = ref.verdict(i)
            if first:
                v = True
            if v is None:
                # between configured and effective window: the code accepts; keep reference in step only if it does
                v = (i not in ref.seen)
            if v:
                lines.append(f"rdbx_add {H(delta)}")
                ref.add(i)
            first = False
        out.append((f"rdbx-{k}-{ws}", "\n".join(lines) + "\n"))
    return out


def rdbx_monitor(script, c):
    hits = []
    sl = [l for l in script.split("\n") if l.strip()]
    out = {int(l.split()[0]): l.split() for l in c if l.strip()}
    ref = None
    cur = None
    first = True
    for n, l in enumerate(sl, 1):
        t = l.split()
        o = out.get(n)
        if t[0] == "rdbx_init":
            ref = gen.RtpRef(int(t[1], 16)); first = True
        elif t[0] == "rdbx_est" and o and len(o) >= 4:
            cur = int(o[2], 16)      # implementation's estimate (true index in these scripts)
        elif t[0] == "rdbx_check" and o and len(o) >= 3 and ref is not None and cur is not None:
            ok = int(o[2], 16) == 0
            delta = int(t[1], 16)
            i = ref.hi + delta if not first else delta
            if cur != i:
                hits.append({"what": "SRTP index estimate differs from the true index although it is within 2^15",
                             "signature": "rdbx-estimate-wrong", "detail": f"line {n}: true {i:x} est {cur:x}"})
                break
            want = ref.verdict(i) if not first else True
            if ok and i in ref.seen:
                hits.append({"what": "SRTP replay: an index already accepted passes the replay check again",
                             "signature": "rtp-replay-accepted-twice", "detail": f"line {n}: {l} -> {' '.join(o)}"})
                break
            if ok and want is False:
                hits.append({"what": "SRTP replay: index at or beyond the effective window behind the highest accepted passes the check",
                             "signature": "rtp-replay-old-accepted", "detail": f"line {n}: {l} -> {' '.join(o)}"})
                break
            if not ok and want is True:
                hits.append({"what": "SRTP replay: unseen index inside the configured window rejected",
                             "signature": "rtp-replay-fresh-rejected", "detail": f"line {n}: {l} -> {' '.join(o)}"})
                break
        elif t[0] == "rdbx_add" and ref is not None:
            delta = int(t[1], 16)
            ref.add(ref.hi + delta if not first else delta)
            first = False
    return hits


def families(tier, seed):
    rng = random.Random(seed * 1000 + 5)
    from lib import apigen
    n = 10 if tier == "quick" else 120
    api = [(f"rx-{k}", apigen.replay_history(rng, tier)[0]) for k in range(n)]
    rs = [(f"resync-{k}", apigen.resync_redeliver(rng, tier)) for k in range(n)]
    return [Family("srtp-resync-redeliver", rs, monitor=apigen.redeliver_monitor),
            Family("rdbx-leaf", rdbx_scripts(tier, rng), monitor=rdbx_monitor),
            Family("srtp-unprotect-histories", api, monitor=lambda s, c: apigen.replay_monitor(s, c, False)),
            # the same receive histories through srtp_unprotect_aead (AES-GCM policies, OpenSSL configuration)
            Family("gcm-unprotect-histories", [(f"grx-{k}", apigen.with_aead(apigen.replay_history, random.Random(seed * 1000 + 105 + k), tier)[0])
                                               for k in range(6 if tier == "quick" else 60)],
                   monitor=lambda s, c: apigen.replay_monitor(s, c, False), config="openssl")]
