"""vlib.py — build, run, compare, report.  Shared by every registered check.

Layout of the cache (git-ignored, compiled products only):
  .cache/c-<fp>/    cb/ (cmake build of /repo's working tree, ASan+UBSan), cdrv,
                    Constants.v (+ .warn), GlobalsGen.v
  .cache/q-<fp>/    copy of coq/ with the generated files, compiled (.vo), build
                    log per file, model.ml, mdrv
"""
import fcntl, hashlib, json, os, re, shutil, subprocess, sys, time, random
from concurrent.futures import ThreadPoolExecutor

VERIF = os.path.dirname(os.path.dirname(os.path.abspath(__file__)))
REPO = os.environ.get("VERIF_REPO", "/repo")
CACHE = os.path.join(VERIF, ".cache")
JOBS = int(os.environ.get("VERIF_JOBS", "16"))
GUARD = "CISCO_LIBSRTP_VERIF"
SAN_FLAGS = "-O1 -g -fsanitize=address,undefined -fno-sanitize-recover=all -fno-omit-frame-pointer"

GENERATED = ("Constants.v", "GlobalsGen.v", "KernelGen.v")
# The regenerated call-graph table GlobalsGen.v changes with almost every edit of /repo, but only C19's theorems depend on
# it (Globals.v, Properties_C19.v; Interleave.v is self-contained).  They are compiled in a small build of their own
# (build_globals), so that an edit of /repo that leaves the constants alone re-checks C19's table theorems in seconds
# and does not recompile the 40 k-line development that does not mention the table.
GLOBALS_CONE = ("GlobalsGen.v", "Globals.v", "Properties_C19.v")
GLOBALS_EXTRA = ("Interleave.v",)
# The same for the generated kernels: KernelGen.v changes whenever the text of key.c / rdb.c / rdbx.c / datatypes.c /
# srtp_estimate_index changes; only the two equivalence files import it.  They are compiled in a small build of their own
# (build_kernels) on top of the main build's .vo files.
KERNEL_CONE = ("KernelGen.v", "KernelGenProofs.v", "KernelGenProofs2.v")
KERNEL_SEARCH = ("KernelSearch.v",)          # compiled on demand by tools/kernel_search.sh (needs no proof file)
SIDE_CONES = GLOBALS_CONE + KERNEL_CONE + KERNEL_SEARCH


def sh(cmd, cwd=None, timeout=None, env=None, inp=None):
    return subprocess.run(cmd, cwd=cwd, timeout=timeout, env=env, input=inp,
                          capture_output=True, text=True, shell=isinstance(cmd, str))


def _hash_files(paths, extra=""):
    h = hashlib.sha256()
    for p in sorted(paths):
        # generated files live in a per-tree cache directory: only their name and content identify them
        h.update((os.path.basename(p) if p.startswith(CACHE) else p).encode())
        try:
            with open(p, "rb") as f:
                h.update(f.read())
        except OSError:
            h.update(b"<missing>")
    h.update(extra.encode())
    return h.hexdigest()[:16]


def repo_sources():
    out = []
    for sub in ("srtp", "crypto", "include", "cmake"):
        for d, _, fs in os.walk(os.path.join(REPO, sub)):
            for f in fs:
                if f.endswith((".c", ".h", ".cmake", ".in", ".txt")):
                    out.append(os.path.join(d, f))
    for f in ("CMakeLists.txt", "config_in_cmake.h"):
        out.append(os.path.join(REPO, f))
    return out


def verif_c_sources():
    out = []
    for sub in ("harness", "tools"):
        for f in os.listdir(os.path.join(VERIF, sub)):
            if f.endswith((".c", ".h", ".py")):
                out.append(os.path.join(VERIF, sub, f))
    return out


def wip_files():
    """files listed in coq/WIP.txt are work in progress and are not part of the checked development"""
    try:
        return set(l.strip() for l in open(os.path.join(VERIF, "coq", "WIP.txt")) if l.strip())
    except OSError:
        return set()


def coq_sources():
    out = []
    wip = wip_files()
    for d, _, fs in os.walk(os.path.join(VERIF, "coq")):
        for f in fs:
            if f.endswith(".v") and f not in GENERATED and f not in wip:
                out.append(os.path.join(d, f))
    return sorted(out)


class Lock:
    def __init__(self, name):
        os.makedirs(CACHE, exist_ok=True)
        self.path = os.path.join(CACHE, name + ".lock")

    def __enter__(self):
        self.f = open(self.path, "w")
        fcntl.flock(self.f, fcntl.LOCK_EX)
        return self

    def __exit__(self, *a):
        fcntl.flock(self.f, fcntl.LOCK_UN)
        self.f.close()


def prune(prefix, keep):
    ds = [os.path.join(CACHE, d) for d in os.listdir(CACHE) if d.startswith(prefix) and os.path.isdir(os.path.join(CACHE, d))]
    ds.sort(key=lambda d: os.path.getmtime(d), reverse=True)
    for d in ds[keep:]:
        shutil.rmtree(d, ignore_errors=True)


class BuildError(Exception):
    pass


def build_c(config="internal"):
    """cmake-build libsrtp from /repo's working tree with sanitizers, link cdrv,
    regenerate Constants.v / GlobalsGen.v.  Returns the cache dir."""
    fp = _hash_files(repo_sources() + verif_c_sources(), config)
    cdir = os.path.join(CACHE, f"c-{config}-{fp}")
    with Lock("c-" + config):
        if os.path.exists(os.path.join(cdir, "OK")):
            os.utime(cdir)
            return cdir
        shutil.rmtree(cdir, ignore_errors=True)
        os.makedirs(cdir)
        cb = os.path.join(cdir, "cb")
        flags = f"{SAN_FLAGS} -D{GUARD}"
        if config == "tsan":
            flags = f"-O1 -g -fsanitize=thread -fno-omit-frame-pointer -D{GUARD}"
        extra = []
        if config == "openssl":
            extra = ["-DENABLE_OPENSSL=ON"]
        elif config == "nosimd":
            flags += " -U__SSE2__ -U__SSSE3__ -mno-sse2" if False else " -DVERIF_NOSIMD"
        r = sh(["cmake", "-G", "Ninja", "-S", REPO, "-B", cb, "-DCMAKE_BUILD_TYPE=None",
                f"-DCMAKE_C_FLAGS={flags}", "-DLIBSRTP_TEST_APPS=OFF",
                "-DENABLE_WARNINGS_AS_ERRORS=OFF", *extra], timeout=300)
        if r.returncode != 0:
            raise BuildError("cmake configure failed:\n" + r.stdout[-2000:] + r.stderr[-2000:])
        r = sh(["cmake", "--build", cb, "--target", "srtp3"], timeout=900)
        if r.returncode != 0:
            raise BuildError("library build failed:\n" + r.stdout[-4000:] + r.stderr[-2000:])
        inc = ["-DHAVE_CONFIG_H", "-I", cb, "-I", f"{REPO}/include", "-I", f"{REPO}/crypto/include"]
        libs = [os.path.join(cb, "libsrtp3.a")]
        if config == "openssl":
            libs += ["-lcrypto"]
            inc += ["-DOPENSSL"]
        hs = os.path.join(VERIF, "harness")
        if config == "tsan":
            r = sh(["gcc", "-O1", "-g", "-fsanitize=thread", *inc, f"{hs}/threads.c", *libs, "-lpthread",
                    "-o", os.path.join(cdir, "threads")], timeout=300)
            if r.returncode != 0:
                raise BuildError("threads link failed:\n" + r.stderr[-4000:])
            open(os.path.join(cdir, "OK"), "w").write(time.ctime())
            prune("c-" + config + "-", 2)
            return cdir
        r = sh(["gcc", *SAN_FLAGS.split(), "-D" + GUARD, *inc, f"{hs}/cdrv.c", f"{hs}/cdrv_api.c",
                *libs, "-Wl,--wrap=calloc,--wrap=free,--wrap=octet_string_set_to_zero", "-lpthread", "-o", os.path.join(cdir, "cdrv")], timeout=300)
        if r.returncode != 0:
            raise BuildError("cdrv link failed:\n" + r.stderr[-4000:])
        r = sh([sys.executable, os.path.join(VERIF, "tools/gen_constants.py"), REPO, cb,
                os.path.join(cdir, "Constants.v")], timeout=120)
        if r.returncode != 0:
            raise BuildError("gen_constants failed:\n" + r.stderr[-4000:])
        # the integer kernels of key.c / rdbx.c / rdb.c / srtp.c translated to Gallina from the clang AST (tools/gen_kernels.py);
        # KernelGenProofs.v proves them equal to the hand-written kernel models.  A construct the translator does not know
        # leaves that function out (listed in KernelGen.v.failed): the equivalence file then no longer compiles, which the
        # checks report as a note, not as a violation (the differential correspondence still ties the hand-written model).
        gk = os.path.join(VERIF, "tools/gen_kernels.py")
        if os.path.exists(gk):
            r = sh([sys.executable, gk, REPO, cb, os.path.join(cdir, "KernelGen.v")], timeout=300)
            if r.returncode != 0 or not os.path.exists(os.path.join(cdir, "KernelGen.v")):
                open(os.path.join(cdir, "KernelGen.v"), "w").write("(* tools/gen_kernels.py failed: " + (r.stderr[-300:].replace("*)", "* )")) + " *)\n")
                open(os.path.join(cdir, "KernelGen.v.failed"), "w").write("translator crashed")
        gg = os.path.join(VERIF, "tools/gen_globals.py")
        if os.path.exists(gg) and config == "internal":      # the call-graph table is only used by C19, on the internal configuration
            r = sh([sys.executable, gg, REPO, cb, os.path.join(cdir, "GlobalsGen.v")], timeout=600)
            if r.returncode != 0:
                raise BuildError("gen_globals failed:\n" + r.stderr[-4000:])
        open(os.path.join(cdir, "OK"), "w").write(time.ctime())
        prune("c-" + config + "-", 3)
    return cdir


def build_coq(cdir, model_only=False):
    """Copy coq/ + generated files to the cache, make -k all .vo, extract, compile mdrv.
    Returns (qdir, status) where status maps 'File.v' -> (ok, log).
    model_only: compile only the cone of Driver.v (the executable model) — used for the configurations
    other than the internal-crypto one, whose generated Constants.v carries other back-end flags: the
    theorems are about the internal configuration, the model runs in every configuration."""
    gens = [os.path.join(cdir, g) for g in GENERATED if g not in SIDE_CONES and os.path.exists(os.path.join(cdir, g))]
    fp = _hash_files([f for f in coq_sources() if os.path.basename(f) not in SIDE_CONES] + [os.path.join(VERIF, "harness/mdrv.ml")] + gens,
                     "model-only" if model_only else "")
    qdir = os.path.join(CACHE, f"q{'m' if model_only else ''}-{fp}")
    with Lock("q"):
        if os.path.exists(os.path.join(qdir, "DONE")):
            os.utime(qdir)
            return qdir, json.load(open(os.path.join(qdir, "status.json")))
        shutil.rmtree(qdir, ignore_errors=True)
        os.makedirs(qdir)
        cq = os.path.join(qdir, "coq")
        shutil.copytree(os.path.join(VERIF, "coq"), cq,
                        ignore=shutil.ignore_patterns("*.vo", "*.vok", "*.vos", "*.glob", "*.aux", ".*", "WIP.txt", *wip_files(), *SIDE_CONES))
        for g in gens:
            shutil.copy(g, os.path.join(cq, os.path.basename(g)))
        vs = []
        for d, _, fs in os.walk(cq):
            for f in fs:
                if f.endswith(".v") and f != "Extract.v":
                    vs.append(os.path.relpath(os.path.join(d, f), qdir))
        with open(os.path.join(qdir, "_CoqProject"), "w") as f:
            f.write("-Q coq Srtp\n" + "\n".join(sorted(vs)) + "\n")
        r = sh("coq_makefile -f _CoqProject -o Makefile", cwd=qdir, timeout=60)
        if r.returncode != 0:
            raise BuildError("coq_makefile failed: " + r.stderr)
        t0 = time.time()
        target = "coq/Driver.vo" if model_only else ""
        r = sh(f"timeout 3000 make -k -j{JOBS} TIMED=1 COQC='timeout 900 coqc' {target} 2>&1", cwd=qdir, timeout=3100)
        log = r.stdout
        open(os.path.join(qdir, "make.log"), "w").write(log)
        status = {}
        for v in vs:
            ok = os.path.exists(os.path.join(qdir, v + "o"))
            status[os.path.relpath(v, "coq")] = ok
        status["_make_s"] = round(time.time() - t0, 1)
        # extraction + model driver
        ml = os.path.join(qdir, "ml")
        os.makedirs(ml)
        status["_mdrv"] = False
        if status.get("Driver.v"):
            r = sh(["coqc", "-Q", cq, "Srtp", os.path.join(cq, "Extract.v")], cwd=ml, timeout=600)
            if r.returncode == 0:
                shutil.copy(os.path.join(VERIF, "harness/mdrv.ml"), ml)
                r = sh("ocamlfind ocamlopt -O3 -unboxed-types -w -a model.mli model.ml mdrv.ml -o mdrv 2>&1 || "
                       "ocamlfind ocamlopt -w -a model.mli model.ml mdrv.ml -o mdrv", cwd=ml, timeout=600)
                status["_mdrv"] = r.returncode == 0
            if not status["_mdrv"]:
                open(os.path.join(qdir, "extract.log"), "w").write(r.stdout + r.stderr)
        json.dump(status, open(os.path.join(qdir, "status.json"), "w"), indent=1)
        open(os.path.join(qdir, "DONE"), "w").write(time.ctime())
        prune("qm-" if model_only else "q-", 3)
    return qdir, status


def build_kernels(cdir, qdir):
    """the small build of the generated-kernel tie: KernelGen.v (regenerated from /repo) + KernelGenProofs.v + KernelGenProofs2.v,
    compiled against the .vo files of the main build qdir (same logical root).  Returns (kdir, status)."""
    srcs = [os.path.join(VERIF, "coq", f) for f in KERNEL_CONE[1:]]
    gen = os.path.join(cdir, "KernelGen.v")
    if not os.path.exists(gen):
        return None, {}
    fp = _hash_files(srcs + [gen], os.path.basename(qdir))
    kdir = os.path.join(CACHE, f"k-{fp}")
    with Lock("k"):
        if os.path.exists(os.path.join(kdir, "DONE")):
            os.utime(kdir)
            return kdir, json.load(open(os.path.join(kdir, "status.json")))
        shutil.rmtree(kdir, ignore_errors=True)
        cq = os.path.join(kdir, "coq")
        os.makedirs(cq)
        status, log = {}, ""
        t0 = time.time()
        for f in [gen] + srcs:
            shutil.copy(f, os.path.join(cq, os.path.basename(f)))
        for f in KERNEL_CONE:
            r = sh(["timeout", "900", "coqc", "-q", "-Q", cq, "Srtp", "-Q", os.path.join(qdir, "coq"), "Srtp", os.path.join(cq, f)], cwd=kdir, timeout=1000)
            status[f] = r.returncode == 0
            log += f"== {f}\n{r.stdout[-3000:]}{r.stderr[-3000:]}\n"
            if r.returncode != 0:
                break
        open(os.path.join(kdir, "make.log"), "w").write(log)
        status["_make_s"] = round(time.time() - t0, 1)
        json.dump(status, open(os.path.join(kdir, "status.json"), "w"), indent=1)
        open(os.path.join(kdir, "DONE"), "w").write(time.ctime())
        prune("k-", 4)
    return kdir, status


def kernel_search(cdir, qdir, kdir):
    """tools/kernel_search.sh: the regenerated kernels against the hand-written models on boundary-rich grids inside the
    hypotheses of the equivalence theorems.  Returns (list of dicts name/fail/input/gen/model, tool message)."""
    if not kdir:
        return [], "no kernel build"
    outp = os.path.join(kdir, "search.txt")
    if not os.path.exists(outp + ".done"):
        env = dict(os.environ, KERNEL_SEARCH_V=os.path.join(VERIF, "coq", "KernelSearch.v"))
        r = sh(["bash", os.path.join(VERIF, "tools/kernel_search.sh"), REPO, os.path.join(cdir, "cb"), os.path.join(qdir, "coq"), outp], timeout=1500, env=env)
        open(outp + ".done", "w").write(str(r.returncode) + "\n" + (r.stderr or "")[-500:])
    rc = open(outp + ".done").read().split("\n")[0]
    res = []
    for ln in open(outp):
        f = ln.rstrip("\n").split("\t")
        if len(f) >= 7 and f[1].startswith("fail="):
            res.append({"name": f[0], "fail": int(f[1][5:]), "grid": f[2][5:], "inhyp": f[3][6:], "input": f[4][6:], "gen": f[5][4:], "model": f[6][6:]})
        elif len(f) >= 2 and f[1] in ("UNTRANSLATED",) or f[0] == "TOOL-FAILURE":
            res.append({"name": f[0], "fail": -1, "note": "\t".join(f[1:])[:200]})
    return res, ("" if rc == "0" else "kernel_search.sh exit " + rc)


def build_globals(cdir):
    """the small build of C19's table theorems: GlobalsGen.v (regenerated from /repo), Globals.v, Properties_C19.v, Interleave.v.
    Returns (gdir, status) in the same shape as build_coq."""
    srcs = [os.path.join(VERIF, "coq", f) for f in GLOBALS_CONE[1:] + GLOBALS_EXTRA]
    gen = os.path.join(cdir, "GlobalsGen.v")
    fp = _hash_files(srcs + [gen])
    gdir = os.path.join(CACHE, f"g-{fp}")
    with Lock("g"):
        if os.path.exists(os.path.join(gdir, "DONE")):
            os.utime(gdir)
            return gdir, json.load(open(os.path.join(gdir, "status.json")))
        shutil.rmtree(gdir, ignore_errors=True)
        cq = os.path.join(gdir, "coq")
        os.makedirs(cq)
        for f in srcs + [gen]:
            shutil.copy(f, os.path.join(cq, os.path.basename(f)))
        vs = sorted("coq/" + os.path.basename(f) for f in srcs + [gen])
        with open(os.path.join(gdir, "_CoqProject"), "w") as f:
            f.write("-Q coq Srtp\n" + "\n".join(vs) + "\n")
        r = sh("coq_makefile -f _CoqProject -o Makefile", cwd=gdir, timeout=60)
        if r.returncode != 0:
            raise BuildError("coq_makefile failed: " + r.stderr)
        t0 = time.time()
        r = sh(f"timeout 1200 make -k -j{JOBS} TIMED=1 COQC='timeout 900 coqc' 2>&1", cwd=gdir, timeout=1300)
        open(os.path.join(gdir, "make.log"), "w").write(r.stdout)
        status = {os.path.relpath(v, "coq"): os.path.exists(os.path.join(gdir, v + "o")) for v in vs}
        status["_make_s"] = round(time.time() - t0, 1)
        status["_mdrv"] = True
        json.dump(status, open(os.path.join(gdir, "status.json"), "w"), indent=1)
        open(os.path.join(gdir, "DONE"), "w").write(time.ctime())
        prune("g-", 4)
    return gdir, status


# ---------------------------------------------------------------------------
# proof step

GATE = re.compile(r"\b(Admitted|admit|Axiom|Axioms|Parameter|Parameters|Conjecture|Conjectures|"
                  r"Unset Guard Checking|bypass_check|Admit Obligations|Unset Universe Checking|"
                  r"Unset Positivity Checking|native_compute)\b")


def strip_comments(s):
    out, depth, i = [], 0, 0
    while i < len(s):
        if s.startswith("(*", i):
            depth += 1; i += 2
        elif s.startswith("*)", i) and depth:
            depth -= 1; i += 2
        else:
            if depth == 0:
                out.append(s[i])
            i += 1
    return "".join(out)


def gate_scan(qdir):
    """grep gate over the whole development (comments stripped).  Also flags
    Variable/Hypothesis outside a Section."""
    hits = []
    for d, _, fs in os.walk(os.path.join(qdir, "coq")):
        for f in fs:
            if not f.endswith(".v"):
                continue
            txt = strip_comments(open(os.path.join(d, f)).read())
            for m in GATE.finditer(txt):
                hits.append(f"{f}: {m.group(0)}")
            depth = 0
            for ln in txt.split("\n"):
                s = ln.strip()
                if re.match(r"Section\b", s):
                    depth += 1
                elif re.match(r"End\b", s) and depth:
                    depth -= 1
                elif depth == 0 and re.match(r"(Variable|Variables|Hypothesis|Hypotheses|Context)\b", s):
                    hits.append(f"{f}: {s[:40]} outside a Section")
    return hits


def deps_cone(qdir, target):
    """transitive .v dependencies of coq/<target> using coqdep output in .Makefile.d"""
    dep = {}
    p = os.path.join(qdir, ".Makefile.d")
    if os.path.exists(p):
        for ln in open(p):
            if ":" not in ln:
                continue
            lhs, rhs = ln.split(":", 1)
            tg = [t for t in lhs.split() if t.endswith(".vo")]
            ds = [t[:-1] for t in rhs.split() if t.endswith(".vo")]
            for t in tg:
                dep.setdefault(t[:-1], set()).update(ds)
    cone, todo = set(), ["coq/" + target]
    while todo:
        v = todo.pop()
        if v in cone:
            continue
        cone.add(v)
        todo += list(dep.get(v, []))
    return sorted(cone)


def count_obligations(qdir, files):
    n = 0
    for f in files:
        try:
            txt = strip_comments(open(os.path.join(qdir, f)).read())
        except OSError:
            continue
        n += len(re.findall(r"\b(Qed|Defined)\s*\.", txt))
    return n


def print_assumptions(qdir, target):
    """Return the 'Print Assumptions' blocks printed while compiling target (from make.log)."""
    log = open(os.path.join(qdir, "make.log")).read()
    return log


def failed_logs(qdir, files):
    log = open(os.path.join(qdir, "make.log")).read()
    out = []
    for f in files:
        m = re.search(r'File "\./' + re.escape(f) + r'", line (\d+)[^\n]*\n(Error:[^\n]*(?:\n[^\n]+){0,6})', log)
        if m:
            out.append(f"{f}:{m.group(1)}: {m.group(2)[:600]}")
    return out


# ---------------------------------------------------------------------------
# correspondence step

ASAN_OPTS = "detect_leaks=1:abort_on_error=0:exitcode=77:allocator_may_return_null=1:detect_stack_use_after_return=0"
UBSAN_OPTS = "print_stacktrace=1:halt_on_error=1:exitcode=78"


def run_c(cdir, script, timeout=120, env_extra=None):
    env = dict(os.environ, ASAN_OPTIONS=ASAN_OPTS, UBSAN_OPTIONS=UBSAN_OPTS, LSAN_OPTIONS="exitcode=79")
    if env_extra:
        env.update(env_extra)
    try:
        r = subprocess.run([os.path.join(cdir, "cdrv")], input=script, capture_output=True, text=True,
                           timeout=timeout, env=env)
        return r.stdout.split("\n"), r.stderr, r.returncode
    except subprocess.TimeoutExpired:
        return [], "TIMEOUT", -9


def run_m(qdir, script, timeout=600):
    try:
        r = subprocess.run([os.path.join(qdir, "ml", "mdrv")], input=script, capture_output=True, text=True,
                           timeout=timeout)
        return r.stdout.split("\n"), r.stderr, r.returncode
    except subprocess.TimeoutExpired:
        return [], "TIMEOUT", -9


def first_diff(c_lines, m_lines, heap_live_only=False):
    """heap_live_only: in configurations with a third-party crypto back end the number of allocation attempts and frees
    differs from the internal-crypto accounting the model carries (extra per-object blocks of the back end's glue);
    only the number of live blocks is compared there"""
    n = max(len(c_lines), len(m_lines))
    for i in range(n):
        a = c_lines[i] if i < len(c_lines) else "<missing>"
        b = m_lines[i] if i < len(m_lines) else "<missing>"
        ta = a.split(" ", 2)
        if len(ta) > 1 and (ta[1].startswith("spec_") or ta[1] == "secrets"):
            continue          # model-side only operations (the RFC specification)
        if heap_live_only and len(ta) > 1 and ta[1] == "heap":
            if a.split()[:3] == b.split()[:3]:
                continue
        if a != b:
            return i, a, b
    return None


def run_pairs(cdir, qdir, scripts, with_model=True, heap_live_only=False):
    """scripts: list of (name, text).  Returns list of result dicts."""
    def one(item):
        name, text = item
        c, cerr, crc = run_c(cdir, text)
        res = {"name": name, "script": text, "c": c, "c_rc": crc, "c_err": cerr[-3000:] if crc else ""}
        if with_model:
            m, merr, mrc = run_m(qdir, text)
            res.update({"m": m, "m_rc": mrc, "m_err": merr[-1000:] if mrc else ""})
            res["diff"] = first_diff(c, m, heap_live_only) if crc == 0 and mrc == 0 else None
        return res
    with ThreadPoolExecutor(max_workers=JOBS) as ex:
        return list(ex.map(one, scripts))


def shrink(cdir, qdir, text, still_bad, budget=200):
    """delta-debug a script by dropping lines while still_bad(text) holds."""
    lines = [l for l in text.split("\n") if l.strip()]
    n = 2
    tries = 0
    while len(lines) >= 2 and tries < budget:
        chunk = max(1, len(lines) // n)
        reduced = False
        for i in range(0, len(lines), chunk):
            cand = lines[:i] + lines[i + chunk:]
            tries += 1
            if cand and still_bad("\n".join(cand) + "\n"):
                lines = cand
                n = max(n - 1, 2)
                reduced = True
                break
            if tries >= budget:
                break
        if not reduced:
            if chunk == 1:
                break
            n = min(n * 2, len(lines))
    return "\n".join(lines) + "\n"
