coq/Util.vo coq/Util.glob coq/Util.v.beautified coq/Util.required_vo: coq/Util.v 
coq/Util.vio: coq/Util.v 
coq/Util.vos coq/Util.vok coq/Util.required_vos: coq/Util.v 
coq/Constants.vo coq/Constants.glob coq/Constants.v.beautified coq/Constants.required_vo: coq/Constants.v 
coq/Constants.vio: coq/Constants.v 
coq/Constants.vos coq/Constants.vok coq/Constants.required_vos: coq/Constants.v 
coq/KeyLimit.vo coq/KeyLimit.glob coq/KeyLimit.v.beautified coq/KeyLimit.required_vo: coq/KeyLimit.v coq/Util.vo coq/Constants.vo
coq/KeyLimit.vio: coq/KeyLimit.v coq/Util.vio coq/Constants.vio
coq/KeyLimit.vos coq/KeyLimit.vok coq/KeyLimit.required_vos: coq/KeyLimit.v coq/Util.vos coq/Constants.vos
coq/Rdb.vo coq/Rdb.glob coq/Rdb.v.beautified coq/Rdb.required_vo: coq/Rdb.v coq/Util.vo coq/Constants.vo
coq/Rdb.vio: coq/Rdb.v coq/Util.vio coq/Constants.vio
coq/Rdb.vos coq/Rdb.vok coq/Rdb.required_vos: coq/Rdb.v coq/Util.vos coq/Constants.vos
coq/Rdbx.vo coq/Rdbx.glob coq/Rdbx.v.beautified coq/Rdbx.required_vo: coq/Rdbx.v coq/Util.vo coq/Constants.vo
coq/Rdbx.vio: coq/Rdbx.v coq/Util.vio coq/Constants.vio
coq/Rdbx.vos coq/Rdbx.vok coq/Rdbx.required_vos: coq/Rdbx.v coq/Util.vos coq/Constants.vos
coq/Driver.vo coq/Driver.glob coq/Driver.v.beautified coq/Driver.required_vo: coq/Driver.v coq/Util.vo coq/Constants.vo coq/KeyLimit.vo coq/Rdb.vo coq/Rdbx.vo
coq/Driver.vio: coq/Driver.v coq/Util.vio coq/Constants.vio coq/KeyLimit.vio coq/Rdb.vio coq/Rdbx.vio
coq/Driver.vos coq/Driver.vok coq/Driver.required_vos: coq/Driver.v coq/Util.vos coq/Constants.vos coq/KeyLimit.vos coq/Rdb.vos coq/Rdbx.vos
