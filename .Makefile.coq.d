coq/Constants.vo coq/Constants.glob coq/Constants.v.beautified coq/Constants.required_vo: coq/Constants.v 
coq/Constants.vio: coq/Constants.v 
coq/Constants.vos coq/Constants.vok coq/Constants.required_vos: coq/Constants.v 
coq/Crypto/AES.vo coq/Crypto/AES.glob coq/Crypto/AES.v.beautified coq/Crypto/AES.required_vo: coq/Crypto/AES.v 
coq/Crypto/AES.vio: coq/Crypto/AES.v 
coq/Crypto/AES.vos coq/Crypto/AES.vok coq/Crypto/AES.required_vos: coq/Crypto/AES.v 
coq/Crypto/CTR.vo coq/Crypto/CTR.glob coq/Crypto/CTR.v.beautified coq/Crypto/CTR.required_vo: coq/Crypto/CTR.v 
coq/Crypto/CTR.vio: coq/Crypto/CTR.v 
coq/Crypto/CTR.vos coq/Crypto/CTR.vok coq/Crypto/CTR.required_vos: coq/Crypto/CTR.v 
coq/Crypto/HMAC.vo coq/Crypto/HMAC.glob coq/Crypto/HMAC.v.beautified coq/Crypto/HMAC.required_vo: coq/Crypto/HMAC.v coq/Crypto/SHA1.vo
coq/Crypto/HMAC.vio: coq/Crypto/HMAC.v coq/Crypto/SHA1.vio
coq/Crypto/HMAC.vos coq/Crypto/HMAC.vok coq/Crypto/HMAC.required_vos: coq/Crypto/HMAC.v coq/Crypto/SHA1.vos
coq/Crypto/SHA1.vo coq/Crypto/SHA1.glob coq/Crypto/SHA1.v.beautified coq/Crypto/SHA1.required_vo: coq/Crypto/SHA1.v coq/Crypto/CTR.vo
coq/Crypto/SHA1.vio: coq/Crypto/SHA1.v coq/Crypto/CTR.vio
coq/Crypto/SHA1.vos coq/Crypto/SHA1.vok coq/Crypto/SHA1.required_vos: coq/Crypto/SHA1.v coq/Crypto/CTR.vos
coq/Driver.vo coq/Driver.glob coq/Driver.v.beautified coq/Driver.required_vo: coq/Driver.v coq/Util.vo coq/Constants.vo coq/KeyLimit.vo coq/Rdb.vo coq/Rdbx.vo coq/Icm.vo coq/World.vo coq/Stream.vo coq/Rtp.vo coq/Rtcp.vo coq/Session.vo coq/Crypto/AES.vo coq/Crypto/SHA1.vo coq/Crypto/HMAC.vo
coq/Driver.vio: coq/Driver.v coq/Util.vio coq/Constants.vio coq/KeyLimit.vio coq/Rdb.vio coq/Rdbx.vio coq/Icm.vio coq/World.vio coq/Stream.vio coq/Rtp.vio coq/Rtcp.vio coq/Session.vio coq/Crypto/AES.vio coq/Crypto/SHA1.vio coq/Crypto/HMAC.vio
coq/Driver.vos coq/Driver.vok coq/Driver.required_vos: coq/Driver.v coq/Util.vos coq/Constants.vos coq/KeyLimit.vos coq/Rdb.vos coq/Rdbx.vos coq/Icm.vos coq/World.vos coq/Stream.vos coq/Rtp.vos coq/Rtcp.vos coq/Session.vos coq/Crypto/AES.vos coq/Crypto/SHA1.vos coq/Crypto/HMAC.vos
coq/Icm.vo coq/Icm.glob coq/Icm.v.beautified coq/Icm.required_vo: coq/Icm.v coq/Util.vo coq/Constants.vo coq/Crypto/AES.vo
coq/Icm.vio: coq/Icm.v coq/Util.vio coq/Constants.vio coq/Crypto/AES.vio
coq/Icm.vos coq/Icm.vok coq/Icm.required_vos: coq/Icm.v coq/Util.vos coq/Constants.vos coq/Crypto/AES.vos
coq/IndexProofs.vo coq/IndexProofs.glob coq/IndexProofs.v.beautified coq/IndexProofs.required_vo: coq/IndexProofs.v coq/Util.vo coq/Constants.vo coq/Rdbx.vo
coq/IndexProofs.vio: coq/IndexProofs.v coq/Util.vio coq/Constants.vio coq/Rdbx.vio
coq/IndexProofs.vos coq/IndexProofs.vok coq/IndexProofs.required_vos: coq/IndexProofs.v coq/Util.vos coq/Constants.vos coq/Rdbx.vos
coq/KeyLimit.vo coq/KeyLimit.glob coq/KeyLimit.v.beautified coq/KeyLimit.required_vo: coq/KeyLimit.v coq/Util.vo coq/Constants.vo
coq/KeyLimit.vio: coq/KeyLimit.v coq/Util.vio coq/Constants.vio
coq/KeyLimit.vos coq/KeyLimit.vok coq/KeyLimit.required_vos: coq/KeyLimit.v coq/Util.vos coq/Constants.vos
coq/KeyLimitProofs.vo coq/KeyLimitProofs.glob coq/KeyLimitProofs.v.beautified coq/KeyLimitProofs.required_vo: coq/KeyLimitProofs.v coq/Util.vo coq/Constants.vo coq/KeyLimit.vo
coq/KeyLimitProofs.vio: coq/KeyLimitProofs.v coq/Util.vio coq/Constants.vio coq/KeyLimit.vio
coq/KeyLimitProofs.vos coq/KeyLimitProofs.vok coq/KeyLimitProofs.required_vos: coq/KeyLimitProofs.v coq/Util.vos coq/Constants.vos coq/KeyLimit.vos
coq/Properties_C01.vo coq/Properties_C01.glob coq/Properties_C01.v.beautified coq/Properties_C01.required_vo: coq/Properties_C01.v coq/Constants.vo
coq/Properties_C01.vio: coq/Properties_C01.v coq/Constants.vio
coq/Properties_C01.vos coq/Properties_C01.vok coq/Properties_C01.required_vos: coq/Properties_C01.v coq/Constants.vos
coq/Properties_C02.vo coq/Properties_C02.glob coq/Properties_C02.v.beautified coq/Properties_C02.required_vo: coq/Properties_C02.v coq/Constants.vo
coq/Properties_C02.vio: coq/Properties_C02.v coq/Constants.vio
coq/Properties_C02.vos coq/Properties_C02.vok coq/Properties_C02.required_vos: coq/Properties_C02.v coq/Constants.vos
coq/Properties_C04.vo coq/Properties_C04.glob coq/Properties_C04.v.beautified coq/Properties_C04.required_vo: coq/Properties_C04.v coq/Constants.vo
coq/Properties_C04.vio: coq/Properties_C04.v coq/Constants.vio
coq/Properties_C04.vos coq/Properties_C04.vok coq/Properties_C04.required_vos: coq/Properties_C04.v coq/Constants.vos
coq/Properties_C05.vo coq/Properties_C05.glob coq/Properties_C05.v.beautified coq/Properties_C05.required_vo: coq/Properties_C05.v coq/Util.vo coq/Constants.vo coq/Rdbx.vo coq/Seen.vo coq/IndexProofs.vo coq/RdbxProofs.vo
coq/Properties_C05.vio: coq/Properties_C05.v coq/Util.vio coq/Constants.vio coq/Rdbx.vio coq/Seen.vio coq/IndexProofs.vio coq/RdbxProofs.vio
coq/Properties_C05.vos coq/Properties_C05.vok coq/Properties_C05.required_vos: coq/Properties_C05.v coq/Util.vos coq/Constants.vos coq/Rdbx.vos coq/Seen.vos coq/IndexProofs.vos coq/RdbxProofs.vos
coq/Properties_C06.vo coq/Properties_C06.glob coq/Properties_C06.v.beautified coq/Properties_C06.required_vo: coq/Properties_C06.v coq/Util.vo coq/Constants.vo coq/Rdbx.vo coq/Seen.vo coq/IndexProofs.vo coq/RdbxProofs.vo
coq/Properties_C06.vio: coq/Properties_C06.v coq/Util.vio coq/Constants.vio coq/Rdbx.vio coq/Seen.vio coq/IndexProofs.vio coq/RdbxProofs.vio
coq/Properties_C06.vos coq/Properties_C06.vok coq/Properties_C06.required_vos: coq/Properties_C06.v coq/Util.vos coq/Constants.vos coq/Rdbx.vos coq/Seen.vos coq/IndexProofs.vos coq/RdbxProofs.vos
coq/Properties_C07.vo coq/Properties_C07.glob coq/Properties_C07.v.beautified coq/Properties_C07.required_vo: coq/Properties_C07.v coq/Util.vo coq/Constants.vo coq/Rdb.vo coq/Seen.vo coq/RdbProofs.vo
coq/Properties_C07.vio: coq/Properties_C07.v coq/Util.vio coq/Constants.vio coq/Rdb.vio coq/Seen.vio coq/RdbProofs.vio
coq/Properties_C07.vos coq/Properties_C07.vok coq/Properties_C07.required_vos: coq/Properties_C07.v coq/Util.vos coq/Constants.vos coq/Rdb.vos coq/Seen.vos coq/RdbProofs.vos
coq/Properties_C08.vo coq/Properties_C08.glob coq/Properties_C08.v.beautified coq/Properties_C08.required_vo: coq/Properties_C08.v coq/Constants.vo
coq/Properties_C08.vio: coq/Properties_C08.v coq/Constants.vio
coq/Properties_C08.vos coq/Properties_C08.vok coq/Properties_C08.required_vos: coq/Properties_C08.v coq/Constants.vos
coq/Properties_C09.vo coq/Properties_C09.glob coq/Properties_C09.v.beautified coq/Properties_C09.required_vo: coq/Properties_C09.v coq/Util.vo coq/Constants.vo coq/KeyLimit.vo coq/KeyLimitProofs.vo
coq/Properties_C09.vio: coq/Properties_C09.v coq/Util.vio coq/Constants.vio coq/KeyLimit.vio coq/KeyLimitProofs.vio
coq/Properties_C09.vos coq/Properties_C09.vok coq/Properties_C09.required_vos: coq/Properties_C09.v coq/Util.vos coq/Constants.vos coq/KeyLimit.vos coq/KeyLimitProofs.vos
coq/Properties_C10.vo coq/Properties_C10.glob coq/Properties_C10.v.beautified coq/Properties_C10.required_vo: coq/Properties_C10.v coq/Constants.vo
coq/Properties_C10.vio: coq/Properties_C10.v coq/Constants.vio
coq/Properties_C10.vos coq/Properties_C10.vok coq/Properties_C10.required_vos: coq/Properties_C10.v coq/Constants.vos
coq/Properties_C11.vo coq/Properties_C11.glob coq/Properties_C11.v.beautified coq/Properties_C11.required_vo: coq/Properties_C11.v coq/Constants.vo
coq/Properties_C11.vio: coq/Properties_C11.v coq/Constants.vio
coq/Properties_C11.vos coq/Properties_C11.vok coq/Properties_C11.required_vos: coq/Properties_C11.v coq/Constants.vos
coq/Properties_C12.vo coq/Properties_C12.glob coq/Properties_C12.v.beautified coq/Properties_C12.required_vo: coq/Properties_C12.v coq/Constants.vo
coq/Properties_C12.vio: coq/Properties_C12.v coq/Constants.vio
coq/Properties_C12.vos coq/Properties_C12.vok coq/Properties_C12.required_vos: coq/Properties_C12.v coq/Constants.vos
coq/Properties_C13.vo coq/Properties_C13.glob coq/Properties_C13.v.beautified coq/Properties_C13.required_vo: coq/Properties_C13.v coq/Constants.vo
coq/Properties_C13.vio: coq/Properties_C13.v coq/Constants.vio
coq/Properties_C13.vos coq/Properties_C13.vok coq/Properties_C13.required_vos: coq/Properties_C13.v coq/Constants.vos
coq/Properties_C14.vo coq/Properties_C14.glob coq/Properties_C14.v.beautified coq/Properties_C14.required_vo: coq/Properties_C14.v coq/Constants.vo
coq/Properties_C14.vio: coq/Properties_C14.v coq/Constants.vio
coq/Properties_C14.vos coq/Properties_C14.vok coq/Properties_C14.required_vos: coq/Properties_C14.v coq/Constants.vos
coq/Properties_C15.vo coq/Properties_C15.glob coq/Properties_C15.v.beautified coq/Properties_C15.required_vo: coq/Properties_C15.v coq/Constants.vo
coq/Properties_C15.vio: coq/Properties_C15.v coq/Constants.vio
coq/Properties_C15.vos coq/Properties_C15.vok coq/Properties_C15.required_vos: coq/Properties_C15.v coq/Constants.vos
coq/Properties_C16.vo coq/Properties_C16.glob coq/Properties_C16.v.beautified coq/Properties_C16.required_vo: coq/Properties_C16.v coq/Constants.vo
coq/Properties_C16.vio: coq/Properties_C16.v coq/Constants.vio
coq/Properties_C16.vos coq/Properties_C16.vok coq/Properties_C16.required_vos: coq/Properties_C16.v coq/Constants.vos
coq/Properties_C17.vo coq/Properties_C17.glob coq/Properties_C17.v.beautified coq/Properties_C17.required_vo: coq/Properties_C17.v coq/Constants.vo
coq/Properties_C17.vio: coq/Properties_C17.v coq/Constants.vio
coq/Properties_C17.vos coq/Properties_C17.vok coq/Properties_C17.required_vos: coq/Properties_C17.v coq/Constants.vos
coq/Rdb.vo coq/Rdb.glob coq/Rdb.v.beautified coq/Rdb.required_vo: coq/Rdb.v coq/Util.vo coq/Constants.vo
coq/Rdb.vio: coq/Rdb.v coq/Util.vio coq/Constants.vio
coq/Rdb.vos coq/Rdb.vok coq/Rdb.required_vos: coq/Rdb.v coq/Util.vos coq/Constants.vos
coq/RdbProofs.vo coq/RdbProofs.glob coq/RdbProofs.v.beautified coq/RdbProofs.required_vo: coq/RdbProofs.v coq/Util.vo coq/Constants.vo coq/Rdb.vo coq/Seen.vo
coq/RdbProofs.vio: coq/RdbProofs.v coq/Util.vio coq/Constants.vio coq/Rdb.vio coq/Seen.vio
coq/RdbProofs.vos coq/RdbProofs.vok coq/RdbProofs.required_vos: coq/RdbProofs.v coq/Util.vos coq/Constants.vos coq/Rdb.vos coq/Seen.vos
coq/Rdbx.vo coq/Rdbx.glob coq/Rdbx.v.beautified coq/Rdbx.required_vo: coq/Rdbx.v coq/Util.vo coq/Constants.vo
coq/Rdbx.vio: coq/Rdbx.v coq/Util.vio coq/Constants.vio
coq/Rdbx.vos coq/Rdbx.vok coq/Rdbx.required_vos: coq/Rdbx.v coq/Util.vos coq/Constants.vos
coq/RdbxProofs.vo coq/RdbxProofs.glob coq/RdbxProofs.v.beautified coq/RdbxProofs.required_vo: coq/RdbxProofs.v coq/Util.vo coq/Constants.vo coq/Rdbx.vo coq/Seen.vo coq/IndexProofs.vo
coq/RdbxProofs.vio: coq/RdbxProofs.v coq/Util.vio coq/Constants.vio coq/Rdbx.vio coq/Seen.vio coq/IndexProofs.vio
coq/RdbxProofs.vos coq/RdbxProofs.vok coq/RdbxProofs.required_vos: coq/RdbxProofs.v coq/Util.vos coq/Constants.vos coq/Rdbx.vos coq/Seen.vos coq/IndexProofs.vos
coq/Rtcp.vo coq/Rtcp.glob coq/Rtcp.v.beautified coq/Rtcp.required_vo: coq/Rtcp.v coq/Util.vo coq/Constants.vo coq/KeyLimit.vo coq/Rdb.vo coq/Rdbx.vo coq/Icm.vo coq/World.vo coq/Stream.vo coq/Rtp.vo
coq/Rtcp.vio: coq/Rtcp.v coq/Util.vio coq/Constants.vio coq/KeyLimit.vio coq/Rdb.vio coq/Rdbx.vio coq/Icm.vio coq/World.vio coq/Stream.vio coq/Rtp.vio
coq/Rtcp.vos coq/Rtcp.vok coq/Rtcp.required_vos: coq/Rtcp.v coq/Util.vos coq/Constants.vos coq/KeyLimit.vos coq/Rdb.vos coq/Rdbx.vos coq/Icm.vos coq/World.vos coq/Stream.vos coq/Rtp.vos
coq/Rtp.vo coq/Rtp.glob coq/Rtp.v.beautified coq/Rtp.required_vo: coq/Rtp.v coq/Util.vo coq/Constants.vo coq/KeyLimit.vo coq/Rdb.vo coq/Rdbx.vo coq/Icm.vo coq/World.vo coq/Stream.vo
coq/Rtp.vio: coq/Rtp.v coq/Util.vio coq/Constants.vio coq/KeyLimit.vio coq/Rdb.vio coq/Rdbx.vio coq/Icm.vio coq/World.vio coq/Stream.vio
coq/Rtp.vos coq/Rtp.vok coq/Rtp.required_vos: coq/Rtp.v coq/Util.vos coq/Constants.vos coq/KeyLimit.vos coq/Rdb.vos coq/Rdbx.vos coq/Icm.vos coq/World.vos coq/Stream.vos
coq/Seen.vo coq/Seen.glob coq/Seen.v.beautified coq/Seen.required_vo: coq/Seen.v 
coq/Seen.vio: coq/Seen.v 
coq/Seen.vos coq/Seen.vok coq/Seen.required_vos: coq/Seen.v 
coq/Session.vo coq/Session.glob coq/Session.v.beautified coq/Session.required_vo: coq/Session.v coq/Util.vo coq/Constants.vo coq/KeyLimit.vo coq/Rdb.vo coq/Rdbx.vo coq/Icm.vo coq/World.vo coq/Stream.vo coq/Rtp.vo
coq/Session.vio: coq/Session.v coq/Util.vio coq/Constants.vio coq/KeyLimit.vio coq/Rdb.vio coq/Rdbx.vio coq/Icm.vio coq/World.vio coq/Stream.vio coq/Rtp.vio
coq/Session.vos coq/Session.vok coq/Session.required_vos: coq/Session.v coq/Util.vos coq/Constants.vos coq/KeyLimit.vos coq/Rdb.vos coq/Rdbx.vos coq/Icm.vos coq/World.vos coq/Stream.vos coq/Rtp.vos
coq/Stream.vo coq/Stream.glob coq/Stream.v.beautified coq/Stream.required_vo: coq/Stream.v coq/Util.vo coq/Constants.vo coq/KeyLimit.vo coq/Rdb.vo coq/Rdbx.vo coq/Icm.vo coq/World.vo coq/Crypto/AES.vo coq/Crypto/HMAC.vo
coq/Stream.vio: coq/Stream.v coq/Util.vio coq/Constants.vio coq/KeyLimit.vio coq/Rdb.vio coq/Rdbx.vio coq/Icm.vio coq/World.vio coq/Crypto/AES.vio coq/Crypto/HMAC.vio
coq/Stream.vos coq/Stream.vok coq/Stream.required_vos: coq/Stream.v coq/Util.vos coq/Constants.vos coq/KeyLimit.vos coq/Rdb.vos coq/Rdbx.vos coq/Icm.vos coq/World.vos coq/Crypto/AES.vos coq/Crypto/HMAC.vos
coq/Util.vo coq/Util.glob coq/Util.v.beautified coq/Util.required_vo: coq/Util.v coq/Crypto/CTR.vo
coq/Util.vio: coq/Util.v coq/Crypto/CTR.vio
coq/Util.vos coq/Util.vok coq/Util.required_vos: coq/Util.v coq/Crypto/CTR.vos
coq/World.vo coq/World.glob coq/World.v.beautified coq/World.required_vo: coq/World.v coq/Util.vo coq/Constants.vo coq/KeyLimit.vo coq/Rdb.vo coq/Rdbx.vo coq/Icm.vo
coq/World.vio: coq/World.v coq/Util.vio coq/Constants.vio coq/KeyLimit.vio coq/Rdb.vio coq/Rdbx.vio coq/Icm.vio
coq/World.vos coq/World.vok coq/World.required_vos: coq/World.v coq/Util.vos coq/Constants.vos coq/KeyLimit.vos coq/Rdb.vos coq/Rdbx.vos coq/Icm.vos
