# spec table for tools/mkprops.py:  SPECS[pid] = (header comment, imports, [(comment, file, lemma)], tail)
SPECS["C14"] = (
 "   C14: the session behaves as a map from SSRC to stream with wildcard fallback.  list_get / list_remove / list_insert\n"
 "   model srtp_stream_list_* (array with capacity doubling); lookup_or_clone is the sender-side dispatch of srtp_protect /\n"
 "   srtp_protect_rtcp; materialize (receiver side, after authentication) is covered by C13 / C17.",
 "From Srtp Require Import Util Constants KeyLimit Rdb Rdbx Icm World Stream Rtp Session TableProofs.",
 [("lookup after insert: earlier entries win, the new one is found when its SSRC was absent", "TableProofs.v", "list_get_app"),
  ("removing one SSRC never disturbs another", "TableProofs.v", "list_get_remove_other"),
  ("dictionary law under uniqueness; duplicates (which srtp_stream_add does not refuse) uncover the next entry", "TableProofs.v", "list_get_remove_same"),
  ("replace", "TableProofs.v", "list_get_replace"),
  ("growth of the internal table preserves every entry", "TableProofs.v", "list_insert_extends"),
  ("srtp_stream_remove succeeds exactly for SSRCs that have a stream, and touches nothing else", "TableProofs.v", "stream_remove_spec"),
  ("ROC accessors fail with bad_param exactly when the SSRC has no stream (the template does not count)", "TableProofs.v", "get_roc_fails_iff"),
  ("", "TableProofs.v", "set_roc_fails_iff"),
  ("dispatch: an explicit stream is used as is", "TableProofs.v", "lookup_explicit"),
  ("dispatch: neither stream nor wildcard -> no_ctx, nothing changes", "TableProofs.v", "lookup_no_ctx"),
  ("dispatch: wildcard -> an independent clone (template's keys, fresh replay state) inserted for that SSRC only", "TableProofs.v", "lookup_clone"),
  ("a second wildcard policy is refused and leaves the session unchanged", "TableProofs.v", "stream_add_second_template")],
 "")
SPECS["C15"] = (
 "   C15: re-keying keeps sequence state, switches keys and fails safely.  stream_update_specific / update_template model\n"
 "   stream_update / update_template_streams of srtp.c (after the fix b1bd97f that builds the replacement stream first).",
 "From Srtp Require Import Util Constants KeyLimit Rdb Rdbx Icm World Stream Rtp Session TableProofs UpdateProofs UpdateTemplateProofs.",
 [("building a stream from a policy never touches the session", "UpdateProofs.v", "build_stream_session"),
  ("... and releases everything if it fails", "UpdateProofs.v", "build_stream_exit"),
  ("an update of an explicit stream that returns ANY error leaves the whole session (every stream, its keys, its replay state) and the live heap as they were", "UpdateProofs.v", "stream_update_specific_exit_cap"),
  ("a successful update: new keys, old index (ROC + highest sequence number) and SRTCP window, every other SSRC and the template untouched", "UpdateProofs.v", "stream_update_specific_ok"),
  ("... and a rollover counter imposed by set_roc that no packet has taken up yet (fix 1db9411)", "UpdateProofs.v", "stream_update_specific_keeps_pending_roc"),
  ("wildcard update: every refusal before streams are moved leaves the session unchanged", "UpdateProofs.v", "ut_pre_exit"),
  ("", "UpdateProofs.v", "ut_pre_exit_heap"),
  ("", "UpdateProofs.v", "update_template_phases"),
  ("a SUCCESSFUL wildcard update: new template, every explicit stream untouched, every former clone re-cloned from the new template for the same SSRC", "UpdateTemplateProofs.v", "update_template_ok_effect"),
  ("... explicit streams are the very same records", "UpdateTemplateProofs.v", "update_template_explicit_untouched"),
  ("... a former clone keeps ROC, highest sequence number, SRTCP window and a pending ROC; keys are the new template's; its SRTP replay bit mask starts empty (known finding update-clears-rtp-replay-window)", "UpdateTemplateProofs.v", "update_template_clone_keeps_state"),
  ("... no SSRC appears or disappears", "UpdateTemplateProofs.v", "update_template_same_ssrcs")],
 "")
SPECS["C16"] = (
 "   C16: srtp_stream_set_roc takes effect and later wraps still advance the ROC (after the fix f91f198).\n"
 "   index_step (RocProofs.v) is the estimate-then-commit step shared by srtp_protect and srtp_unprotect.",
 "From Srtp Require Import Util Constants KeyLimit Rdb Rdbx Icm World Stream Rtp Session IndexProofs TableProofs RocProofs UpdateProofs.",
 [("set_roc records the ROC and changes nothing else", "RocProofs.v", "set_roc_effect"),
  ("the next packet is estimated with exactly that ROC", "RocProofs.v", "est_index_pending_spec"),
  ("r ahead of the current counter: the packet is always processed (ok or index-advance), never 'old'", "RocProofs.v", "est_index_after_set_roc"),
  ("after one processed packet the pending ROC is gone and the window sits at max(old index, r*2^16+seq) with ROC r", "RocProofs.v", "index_step_after_set_roc"),
  ("from then on estimation is the natural one: exact for every index within 2^15, across wraps", "RocProofs.v", "set_roc_then_follows_wraps"),
  ("the first wrap after set_roc r is processed with r+1", "RocProofs.v", "wrap_after_set_roc"),
  ("a re-key between set_roc and the next packet keeps the imposed ROC (fix 1db9411)", "UpdateProofs.v", "stream_update_specific_keeps_pending_roc"),
  ("accessors: bad_param exactly for SSRCs without a stream (from TableProofs)", "TableProofs.v", "set_roc_fails_iff")],
 "")
SPECS["C17"] = (
 "   C17: no leak or double free on any path, including failure of any single allocation.  balanced w base says the live\n"
 "   block count equals base + everything the session owns (session_blocks).  All statements hold for EVERY initial heap,\n"
 "   i.e. for every position of the failing allocation (h_fail) and for none.",
 "From Srtp Require Import Util Constants KeyLimit Rdb Rdbx Icm World Stream Rtp Session HeapProofs.",
 [("srtp_create: success -> balanced session; any failure -> everything released", "HeapProofs.v", "session_create_balanced"),
  ("srtp_stream_add", "HeapProofs.v", "stream_add_balanced"),
  ("srtp_stream_remove", "HeapProofs.v", "stream_remove_balanced"),
  ("srtp_update, explicit stream", "HeapProofs.v", "stream_update_specific_balanced"),
  ("srtp_update, wildcard (after fix c8c46b3)", "HeapProofs.v", "update_template_balanced"),
  ("wildcard cloning on the sender side", "HeapProofs.v", "lookup_or_clone_balanced"),
  ("wildcard cloning on the receiver side", "HeapProofs.v", "materialize_balanced"),
  ("srtp_dealloc returns everything", "HeapProofs.v", "session_dealloc_releases"),
  ("any API sequence, any failure point: after srtp_dealloc nothing obtained by the library remains allocated", "HeapProofs.v", "no_leak_after_dealloc")],
 "")
SPECS["C18"] = (
 "   C18: crypto-kernel primitives equal their standards for all lengths and chunkings.  The theorems are about the models of the C\n"
 "   state machines (Icm.v, Sha1Model.v, HmacModel.v, EqualModel.v, BitvecModel.v), instantiated with the Gallina AES / SHA-1\n"
 "   compression functions; aes.c and the SHA-1 rounds themselves are compared, not proved (see evidence).",
 "From Srtp Require Import Util Constants Rdb Rdbx Icm IcmProofs Sha1Model Sha1Proofs HmacModel HmacProofs EqualModel EqualProofs BitvecModel BitvecProofs.\nFrom Srtp.Crypto Require Import AES SHA1 HMAC.",
 [("one srtp_aes_icm_encrypt call from any reachable state = data xor the RFC 3711 counter-mode keystream at that position", "IcmProofs.v", "aes_icm_encrypt_ok"),
  ("any split of the data across encrypt calls gives the same status, state and bytes as one call", "IcmProofs.v", "aes_icm_chunking_independent"),
  ("per-IV limit: with the block counter starting at 0 (as in SRTP) a call is refused exactly when it would pass octet 65535*16; nothing is output, the state is kept", "IcmProofs.v", "aes_icm_terminus_srtp"),
  ("srtp_cipher_set_iv + one srtp_cipher_encrypt as srtp.c uses them", "IcmProofs.v", "cipher_encrypt_after_start"),
  ("SHA-1 buffering and in-line padding (one- and two-block cases, 32-bit bit counter) = FIPS 180-4 for every chunking, every length < 2^29", "Sha1Proofs.v", "sha1m_digest_correct"),
  ("HMAC (ipad/opad, init/start/update/compute, truncation) = RFC 2104 for keys up to 20 octets, every chunking", "HmacProofs.v", "hmac_model_correct"),
  ("constant-time compare, SSE2 schedule 32/16/8/1: equal exactly when the strings are equal", "EqualProofs.v", "oct_equal_iff", "N_scope"),
  ("portable schedule 8/4/1", "EqualProofs.v", "oct_equal_portable_iff", "N_scope"),
  ("SIMD and portable builds agree", "EqualProofs.v", "oct_equal_agree", "N_scope"),
  ("bitvector_left_shift (word loop, any length, any shift) is a right shift of the packed bit window", "BitvecProofs.v", "bv_left_shift_spec", "N_scope"),
  ("v128_left_shift", "BitvecProofs.v", "v128_left_shift_spec", "N_scope"),
  ("... which is what Rdb.v / Rdbx.v use in place of the word loops", "BitvecProofs.v", "rdb_v128_shift_justified", "N_scope"),
  ("", "BitvecProofs.v", "rdbx_shift_justified", "N_scope")],
 "")
SPECS["C10"] = (
 "   C10: memory safety for arbitrary packets under every accepted configuration.  b_oob is the model's 'an access outside\n"
 "   [in,in+len) / [out,out+*out_len) happened' flag (World.v: rd_src / rd_dst / wr_dst); size_ok z := 0 <= z < 2^63.\n"
 "   After fix 0773c0d the theorem for srtp_unprotect needs no side condition.",
 "From Srtp Require Import Util Constants KeyLimit Rdb Rdbx Icm World Stream Rtp Rtcp Session EnvelopeProofs WfProofs BoundsRtcp BoundsRtp.",
 [("an installed policy's tag lengths fit tmp_tag[16], its MKI size is 0 or 1..128", "EnvelopeProofs.v", "valid_policy_envelope"),
  ("key derivation never writes beyond tmp_key[256]", "EnvelopeProofs.v", "derive_keys_no_overflow"),
  ("every stream the library builds is well-formed (tag / MKI sizes within the envelope)", "WfProofs.v", "stream_init_returns_wf"),
  ("... and so is every clone", "WfProofs.v", "stream_clone_wf"),
  ("srtp_protect: no access outside the buffers, whatever the bytes, lengths, capacity and mode", "BoundsRtp.v", "protect_no_oob"),
  ("srtp_unprotect", "BoundsRtp.v", "unprotect_no_oob"),
  ("srtp_protect_rtcp", "BoundsRtcp.v", "protect_rtcp_no_oob"),
  ("srtp_unprotect_rtcp", "BoundsRtcp.v", "unprotect_rtcp_no_oob")],
 "")
SPECS["C11"] = (
 "   C11: length contract.  pkt_stream / sender_key / receiver_key (LengthProofs.v) recompute which stream and key a packet is processed with.",
 "From Srtp Require Import Util Constants KeyLimit Rdb Rdbx Icm World Stream Rtp Rtcp Session EnvelopeProofs WfProofs BoundsRtcp LengthProofs.",
 [("trailer of any accepted policy <= SRTP_MAX_TRAILER_LEN (144) / SRTP_MAX_SRTCP_TRAILER_LEN (148)", "EnvelopeProofs.v", "trailer_fits"),
  ("srtp_protect: output length = input + MKI + tag, and it fits the capacity", "LengthProofs.v", "protect_length"),
  ("srtp_protect refuses a capacity below that", "LengthProofs.v", "protect_small_buffer_refused"),
  ("srtp_unprotect: output length = input - MKI - tag, within capacity", "LengthProofs.v", "unprotect_length"),
  ("SRTCP (+4 octets of trailer)", "LengthProofs.v", "protect_rtcp_length"),
  ("", "LengthProofs.v", "protect_rtcp_small_buffer_refused"),
  ("", "LengthProofs.v", "unprotect_rtcp_length")],
 "")
SPECS["C20"] = (
 "   C20: key material is wiped before its memory is released.  WipeModel.v gives the wipe / free events of srtp_stream_dealloc and\n"
 "   srtp_dealloc as a function of the session; the implementation's own events (allocator + octet_string_set_to_zero wrappers) are\n"
 "   compared with it event by event on every run, and every freed block is scanned for the secrets the model's KDF computes.\n"
 "   `clean` = every free of an AES-ICM context, an HMAC block or an MKI copy is immediately preceded by a wipe of that whole block.\n"
 "   PARTIAL: compiler dead-store elimination and stack residue are outside the model (the scan of the real binary is the evidence).",
 "From Srtp Require Import Util Constants KeyLimit Rdb Rdbx Icm World Stream WipeModel WipeProofs.",
 [("srtp_stream_dealloc (explicit stream, clone or template): clean in any context", "WipeProofs.v", "stream_dealloc_clean"),
  ("srtp_dealloc of any session", "WipeProofs.v", "session_dealloc_clean"),
  ("both salt fields of every key are wiped before the session-keys array is freed", "WipeProofs.v", "salts_wiped_before_array_freed")],
 "")
SPECS["C04"] = (
 "   C04: integrity.  What the models of srtp_unprotect / srtp_unprotect_rtcp accept: the tag octets equal HMAC over EVERYTHING before the\n"
 "   MKI (header, CSRCs, extension, payload, SRTCP trailer) followed by the ROC; the E bit and index are those of the trailer; the key is\n"
 "   the one the MKI names.  Under an explicit collision-freeness premise (an idealisation: false for real truncated HMAC by counting)\n"
 "   an accepted packet's authenticated portion is the sender's.  Unforgeability of HMAC-SHA1 itself is not provable here.",
 "From Srtp Require Import Util Constants KeyLimit Rdb Rdbx Icm World Stream Rtp Rtcp WfProofs BoundsRtcp LengthProofs EqualModel EqualProofs IntegrityProofs.\nFrom Srtp.Crypto Require Import HMAC.",
 [("the model's tag comparison is equality", "IntegrityProofs.v", "beqb_true_iff"),
  ("... and so is the C constant-time compare (both chunk schedules)", "EqualProofs.v", "oct_equal_beqb"),
  ("SRTP: accepted => tag = HMAC(k_a, all octets before the MKI || ROC)", "IntegrityProofs.v", "unprotect_pre_tag_matches_wf"),
  ("SRTCP: accepted => E bit and index from the trailer, tag = HMAC over packet || trailer", "IntegrityProofs.v", "unprotect_rtcp_pre_tag_matches"),
  ("MKI: the key used is the one whose MKI the packet carries (first such; unique under distinct MKIs)", "IntegrityProofs.v", "unprotect_pre_mki"),
  ("", "IntegrityProofs.v", "unprotect_pre_mki_unique"),
  ("idealised MAC: accepted => the authenticated portion and ROC are the sender's", "IntegrityProofs.v", "ideal_srtp_integrity"),
  ("... so any alteration of header, payload, extension or ROC is rejected", "IntegrityProofs.v", "ideal_srtp_altered_rejected"),
  ("SRTCP analogue", "IntegrityProofs.v", "ideal_srtcp_integrity")],
 "")
SPECS["C02"] = (
 "   C02: SRTCP round trip.  protect_rtcp / unprotect_rtcp are the monadic models of srtp_protect_rtcp / srtp_unprotect_rtcp\n"
 "   (Rtcp.v, tied to srtp.c by the correspondence check); rtcp_wire is the byte-level description of the packet\n"
 "   (header | body xor keystream when E | E+index | MKI | tag) and protect_rtcp_fun / unprotect_rtcp_fun the pure functions\n"
 "   the monadic code is proved to refine (RtcpSpecProofs.v).  Scope: explicit stream for the packet's SSRC (the wildcard\n"
 "   clone path is covered by C13 / C14 / C17), internal crypto (AES-ICM, NULL cipher, HMAC-SHA1, NULL auth), any MKI setting,\n"
 "   any alias mode on either side.  The round trip premises are those a peer session with the same policy satisfies:\n"
 "   same keys / services / MKI configuration, packet index not yet seen by the receiver.",
 "From Srtp Require Import Util Constants KeyLimit Rdb Rdbx Icm World Stream Rtp Rtcp Session WfProofs RtcpSpec RtcpSpecProofs RtcpRoundTrip.",
 [("the stream cipher is an involution: applying it again at the same state gives the input back", "RtcpSpec.v", "cipher_encrypt_involutive"),
  ("what a successful srtp_protect_rtcp emits, byte for byte, for the stream's next SRTCP index", "RtcpSpecProofs.v", "protect_rtcp_wire"),
  ("the E flag and index in the trailer are the ones the receiver extracts; length and SSRC", "RtcpRoundTrip.v", "rtcp_wire_trailer"),
  ("round trip on the pure functions, with and without MKI", "RtcpRoundTrip.v", "rtcp_round_trip_fun"),
  ("round trip of the monadic receiver on a wire packet: status ok, length, bytes, receiver state, no out-of-bounds access, input untouched", "RtcpRoundTrip.v", "rtcp_round_trip"),
  ("end to end: whatever srtp_protect_rtcp produced is accepted by the peer and decodes to the byte-identical packet", "RtcpRoundTrip.v", "rtcp_protect_unprotect"),
  ("non-vacuity (vm_compute): AES-ICM-128 / HMAC-SHA1-80, MKI with two keys, in place and out of place", "RtcpRoundTrip.v", "Example.protect_inplace_is_wire"),
  ("", "RtcpRoundTrip.v", "Example.unprotect_outofplace_gives_pkt"),
  ("the premise 0 <= services <= 3 is needed: outside sec_serv_t's range sender and receiver disagree about the E bit (unreachable through the API)", "RtcpRoundTrip.v", "Example.round_trip_serv_out_of_range_refuted")],
 "")
SPECS["C03"] = (
 "   C03: wire format equals RFC 3711 (AES-CM key derivation, IV formation, keystream, packet layout).  Spec/Rfc3711.v is the\n"
 "   independent specification written from the RFC text over AES-ECB only (cm_keystream, kdf, cm_iv; RFC 3711 B.2 / B.3\n"
 "   test vectors are Examples there).  The theorems say the MODEL's cipher glue (Icm.v counter handling, salt / IV xor, Stream.v\n"
 "   derive_keys) computes exactly those functions; the SRTCP packet layout is C02_protect_rtcp_wire.  GCM, AES-192 and the\n"
 "   OpenSSL / NSS / mbedTLS back ends are not built in this configuration and are outside these theorems.\n"
 "   Known finding F8a (RFC 6904 keystream not positional) is a deviation of the header-extension walk, reported by the check.",
 "From Srtp Require Import Util Constants KeyLimit Rdb Rdbx Icm World Stream Rtp Rtcp Session SpecEqAes SpecEqProofs.\nFrom Srtp.Spec Require Import Rfc3711.",
 [("the 16-bit block counter of aes_icm.c is integer addition on the 128-bit IV as long as it does not wrap", "SpecEqProofs.v", "ctr_add_be_val"),
  ("keystream of the counter-mode loop = RFC 3711 4.1.1 keystream, up to 2^16 blocks", "SpecEqProofs.v", "ctr_keystream_cm"),
  ("SRTP IV: (salt * 2^16) xor (SSRC * 2^64) xor (index * 2^16)", "SpecEqProofs.v", "rtp_iv_spec"),
  ("SRTCP IV: the same with the 31-bit SRTCP index", "SpecEqProofs.v", "rtcp_iv_spec"),
  ("encryption with a keyed cipher = xor with the RFC keystream for that key / salt / IV", "SpecEqProofs.v", "cipher_encrypt_spec_k"),
  ("key derivation function = RFC 3711 4.3.1 (key_id = label * 2^48, r = 0), any master key length", "SpecEqProofs.v", "kdf_generate_spec"),
  ("derive_keys (srtp_stream_init_keys): labels 0..5 (and 6/7 for RFC 6904), key / salt / auth-key lengths, AES-128 master key", "SpecEqProofs.v", "derive_keys_spec_128"),
  ("... AES-256 master key", "SpecEqProofs.v", "derive_keys_spec_256"),
  ("end to end for SRTP payloads: derived cipher started on the packet IV emits data xor cm_keystream(k_e, cm_iv(k_s, ssrc, i))", "SpecEqProofs.v", "session_rtp_encrypt"),
  ("end to end for SRTCP", "SpecEqProofs.v", "session_rtcp_encrypt"),
  ("end to end for the RFC 6904 header-extension keystream", "SpecEqProofs.v", "session_xtn_encrypt"),
  ("boundary: like aes_icm.c the model refuses the 65536th block of one IV, which the RFC allows (packets / keys above 1 MiB - 16 only)", "SpecEqProofs.v", "kdf_boundary_differs"),
  ("RFC 3711 B.3 key derivation test vectors evaluated on the model", "SpecEqProofs.v", "model_kdf_b3"),
  ("RFC 3711 B.2 AES-CM test vectors evaluated on the specification", "Spec/Rfc3711.v", "cm_b2"),
  ("RFC 3711 B.3 evaluated on the specification", "Spec/Rfc3711.v", "kdf_b3_cipher_key")],
 "")
SPECS["C01"] = (
 "   C01: SRTP round trip.  protect / unprotect are the monadic models of srtp_protect / srtp_unprotect (Rtp.v, tied to srtp.c by the\n"
 "   correspondence check); rtp_wire (RtpSpec.v) is the byte-level description of the SRTP packet (header with RFC 6904 / cryptex\n"
 "   transformations | payload xor keystream | MKI | tag over body||ROC) and protect_fun the pure function the monadic sender is\n"
 "   proved to refine.  Scope of the END-TO-END theorems: explicit stream for the packet's SSRC (the wildcard clone path is covered\n"
 "   by C13 / C14 / C17), internal crypto (AES-ICM, NULL cipher, HMAC-SHA1, NULL auth), any CSRC count / extension shape / payload\n"
 "   length / MKI setting / alias mode on either side, every stream class of the property's domain: plain, RFC 6904 header-extension\n"
 "   encryption, cryptex (in_domain_stream: cryptex and an RFC 6904 cipher are not combined - that combination is outside the\n"
 "   domain and is refuted by evaluation below).  The round trip premises are those a peer session with the same\n"
 "   policy in the same index state satisfies: same keys / services / MKI configuration, same index estimate, packet not yet seen.",
 "From Srtp Require Import Util Constants KeyLimit Rdb Rdbx Icm World Stream Rtp Session WfProofs RtcpSpec RtpSpec XtnProofs CryptexProofs RtpSpecProofs RtpXtnApply RtpRoundTrip CipherChunk RtpRoundTripXtn RtpRoundTripCryptex RtpRoundTripCryptexEx RtpRefineXtn RtpRefineCryptex RtpEndToEnd RtpExamples RtpRefineExamples.",
 [("the stream cipher is an involution: applying it again at the same state gives the input back", "RtcpSpec.v", "cipher_encrypt_involutive"),
  ("what a successful srtp_protect emits, byte for byte: rtp_wire for the selected key and the estimated index", "RtpSpecProofs.v", "protect_emits_rtp_wire"),
  ("the receiver selects the sender's key: first key without MKI, the named key under distinct MKI values", "RtpRoundTrip.v", "key_selected_nodup"),
  ("round trip of the monadic receiver on a wire packet: status ok, length, bytes, no out-of-bounds access, input untouched (any alias mode, any destination prefill)", "RtpRoundTrip.v", "srtp_round_trip"),
  ("end to end: whatever srtp_protect produced is accepted by the peer and decodes to the byte-identical packet", "RtpRoundTrip.v", "srtp_protect_unprotect"),
  ("WHOLE DOMAIN, sender: srtp_protect computes protect_fun and emits rtp_wire for every stream that does not combine cryptex with RFC 6904", "RtpEndToEnd.v", "protect_refines_domain"),
  ("", "RtpEndToEnd.v", "protect_emits_rtp_wire_domain"),
  ("WHOLE DOMAIN, end to end: any packet of octets srtp_protect accepts is returned byte-identical by the peer's srtp_unprotect (status ok, same length, no out-of-bounds access, input untouched), any alias mode on either side", "RtpEndToEnd.v", "srtp_protect_unprotect_domain"),
  ("RFC 6904 class: the same receiver theorem with a header-extension cipher (k_xtn_c arbitrary), any alias mode", "RtpRoundTripXtn.v", "srtp_round_trip_xtn"),
  ("cryptex class (RFC 9335, CSRCs included; in place = shuffle + one run, out of place = CSRC run + rest): any s_cryptex setting without header-extension cipher; profile_octets holds for every list of octets", "RtpRoundTripCryptex.v", "srtp_round_trip_noxtn"),
  ("", "RtpRoundTripCryptex.v", "srtp_round_trip_cryptex"),
  ("all classes of the property's domain in one statement (cryptex together with RFC 6904 is outside it)", "RtpRoundTripCryptex.v", "srtp_round_trip_classes"),
  ("the octet side condition is met by real packets", "RtpRoundTripCryptexEx.v", "profile_octets_of_octets"),
  ("chunking independence of the cipher (what makes the out-of-place cryptex path equal to the in-place one)", "CipherChunk.v", "cipher_chunk"),
  ("outside the domain, evaluated: cryptex together with RFC 6904 does not round-trip (receiver side of known finding F16)", "RtpRoundTripCryptexEx.v", "srtp_round_trip_cryptex_with_6904_refuted"),
  ("RFC 6904 element walk, one-byte form: running it again with the same keystream gives the elements back", "XtnProofs.v", "xtn_one_involutive"),
  ("... two-byte form", "XtnProofs.v", "xtn_two_involutive"),
  ("... on a whole packet block: only the extension elements change, and the transformation is an involution", "RtpXtnApply.v", "xtn_apply_outside"),
  ("", "RtpXtnApply.v", "xtn_apply_involutive"),
  ("cryptex: the in-place CSRC / extension-header shuffle of srtp_cryptex_adjust_buffer is undone by srtp_cryptex_restore_buffer", "CryptexProofs.v", "cryptex_adjust_restore_id"),
  ("non-vacuity and class coverage by evaluation (vm_compute through session_create, protect, unprotect; in place, out of place with two prefills): plain with MKI", "RtpExamples.v", "RtpEx.plain_mki_key0"),
  ("", "RtpExamples.v", "RtpEx.plain_mki_key1"),
  ("empty payload", "RtpExamples.v", "RtpEx.plain_empty_payload"),
  ("RFC 6904, one-byte and two-byte forms, with MKI", "RtpExamples.v", "RtpEx.xtn6904_one_byte"),
  ("", "RtpExamples.v", "RtpEx.xtn6904_two_byte"),
  ("", "RtpExamples.v", "RtpEx.xtn6904_with_mki"),
  ("cryptex with CSRCs, both forms, with MKI", "RtpExamples.v", "RtpEx.cryptex_csrc_one_byte"),
  ("", "RtpExamples.v", "RtpEx.cryptex_two_byte"),
  ("", "RtpExamples.v", "RtpEx.cryptex_with_mki"),
  ("", "RtpExamples.v", "RtpEx.cryptex_wire_shape")],
 "")
SPECS["C12"] = (
 "   C12: in-place and out-of-place processing give identical results.  The monadic models run over explicit source / destination\n"
 "   blocks with an alias flag (World.v); each theorem says the model REFINES a pure function of (session, packet bytes, capacity),\n"
 "   so status, length, output octets and final session cannot depend on the alias mode or on what the destination held, and the\n"
 "   out-of-place call leaves its input alone.  SRTCP: both functions, every input (valid, replayed, tampered, malformed).\n"
 "   SRTP: srtp_unprotect for every input and every well-formed stream (no class restriction); srtp_protect for every input and\n"
 "   every stream that does not combine cryptex with an RFC 6904 cipher (in_domain_stream).  Known finding F16: cryptex TOGETHER WITH RFC 6904\n"
 "   (outside C01's domain) is alias dependent; the refutation below is evaluated on the model and replayed on the library.",
 "From Srtp Require Import Util Constants KeyLimit Rdb Rdbx Icm World Stream Rtp Rtcp Session WfProofs RtcpSpec RtcpSpecProofs RtpSpec RtpSpecProofs RtpRoundTrip RtpRoundTripCryptex RtpUnprotSpec RtpUnprotProofs RtpRefineXtn RtpRefineCryptex RtpEndToEnd RtpExamples RtpRefineExamples.",
 [("srtp_protect computes protect_fun of (session, MKI index, capacity, packet): whatever the alias mode and the prefill", "RtpSpecProofs.v", "protect_refines"),
  ("... hence in place vs out of place: same status, length, output octets, final session; source untouched", "RtpSpecProofs.v", "protect_alias_independent"),
  ("srtp_protect, whole domain (plain, RFC 6904, cryptex): refinement and alias independence", "RtpEndToEnd.v", "protect_refines_domain"),
  ("", "RtpEndToEnd.v", "protect_alias_independent_domain"),
  ("non-vacuity: concrete RFC 6904 / cryptex sessions and packets meet the hypotheses", "RtpRefineExamples.v", "xtn_theorem_applies"),
  ("", "RtpRefineExamples.v", "cryptex_theorem_applies"),
  ("srtp_unprotect computes unprotect_fun of (session, capacity, input octets) for EVERY input (valid, replayed, tampered, malformed) and EVERY well-formed stream (plain, RFC 6904, cryptex, both): whatever the alias mode and the prefill", "RtpUnprotProofs.v", "unprotect_refines"),
  ("... hence two arbitrary calls with the same session, capacity and input octets agree on status, length, output octets and final session, and neither touches its source", "RtpUnprotProofs.v", "unprotect_buffers_independent"),
  ("in place vs out of place", "RtpUnprotProofs.v", "unprotect_alias_independent"),
  ("out of place, two different destination prefills", "RtpUnprotProofs.v", "unprotect_prefill_independent"),
  ("cryptex together with RFC 6904 on the RECEIVE side is refused identically in every mode (the alias dependence of F16 is on the protect side only)", "RtpUnprotProofs.v", "unprotect_cryptex_xtn_rejected"),
  ("", "RtpUnprotProofs.v", "unprotect_alias_cryptex_xtn_not_refuted"),
  ("srtp_unprotect on a wire packet: the packet comes back in every mode (w is any world whose input block holds the wire image)", "RtpRoundTripCryptex.v", "srtp_round_trip_classes"),
  ("srtp_protect_rtcp refines a pure function", "RtcpSpecProofs.v", "protect_rtcp_refines"),
  ("srtp_unprotect_rtcp refines a pure function (all inputs: the function also computes the error statuses)", "RtcpSpecProofs.v", "unprotect_rtcp_refines"),
  ("srtp_protect_rtcp: alias independence", "RtcpSpecProofs.v", "protect_rtcp_alias_independent"),
  ("", "RtcpSpecProofs.v", "protect_rtcp_inplace_vs_outofplace"),
  ("srtp_unprotect_rtcp: alias independence", "RtcpSpecProofs.v", "unprotect_rtcp_alias_independent"),
  ("evaluated: cryptex and RFC 6904 classes, protect and unprotect, in place = out of place for two prefills", "RtpExamples.v", "RtpEx.cryptex_csrc_one_byte"),
  ("", "RtpExamples.v", "RtpEx.xtn6904_one_byte"),
  ("REFUTED for cryptex together with RFC 6904 (known finding cryptex-with-6904:protect)", "RtpSpecProofs.v", "protect_alias_cryptex_xtn_refuted")],
 "")

# ---- the AES-GCM (RFC 7714) paths: theorems about the AEAD functions of Aead.v (what the driver runs in GCM-capable builds) ----
def _ext(pid, imports_extra, items, header_extra):
    h, imp, it, tail = SPECS[pid]
    SPECS[pid] = (h + header_extra, imp + "\nFrom Srtp Require Import " + imports_extra + ".", it + items, tail)

_AEAD_NOTE = ("\n   AES-GCM: the theorems named *_aead are about the models of srtp_protect_aead / srtp_unprotect_aead / srtp_protect_rtcp_aead /\n"
              "   srtp_unprotect_rtcp_aead (Aead.v over Crypto/GCM.v), which the correspondence check runs against libsrtp built with OpenSSL; in the\n"
              "   internal-crypto configuration the dispatchers reduce to the non-AEAD functions (AeadProofs.v).")
_ext("C01", "Aead AeadProofs AeadRoundTripRtp AeadCryptexRtp AeadCryptexInplace",
 [("AES-GCM: without a GCM back end the driver's dispatcher IS srtp_protect's non-AEAD model", "AeadProofs.v", "protect_any_internal"),
  ("", "AeadProofs.v", "unprotect_any_internal"),
  ("AES-GCM: what was sealed opens to the plaintext (any key, IV, AAD, tag length up to 16)", "AeadProofs.v", "gcm_open_seal"),
  ("AES-GCM: what a successful srtp_protect_aead emits (header with RFC 6904 | GCM ciphertext | tag | MKI), any alias mode", "AeadRoundTripRtp.v", "protect_aead_wire"),
  ("AES-GCM round trip, streams without cryptex (with or without RFC 6904), any alias mode on either side", "AeadRoundTripRtp.v", "rtp_aead_round_trip"),
  ("", "AeadRoundTripRtp.v", "rtp_aead_protect_unprotect"),
  ("AES-GCM with cryptex in place, any CSRC count", "AeadCryptexInplace.v", "rtp_aead_cryptex_round_trip"),
  ("AES-GCM: the documented refusal (cryptex in use, out of place, CSRCs) on both sides", "AeadCryptexRtp.v", "protect_aead_cryptex_refusal"),
  ("", "AeadCryptexRtp.v", "unprotect_aead_cryptex_refusal"),
  ("AES-GCM evaluated examples: plain, RFC 6904 (both forms, MKI), empty payload, cryptex in place with CSRCs, cryptex without CSRCs in all four alias combinations", "AeadRoundTripRtp.v", "AeadRtpExample.gcm_plain"),
  ("", "AeadRoundTripRtp.v", "AeadRtpExample.gcm_xtn_one_byte_mki"),
  ("", "AeadRoundTripRtp.v", "AeadRtpExample.gcm_cryptex_inplace_csrc"),
  ("", "AeadRoundTripRtp.v", "AeadRtpExample.gcm_cryptex_no_csrc")], _AEAD_NOTE)
_ext("C02", "Aead AeadProofs AeadRoundTripRtcp",
 [("AES-GCM: without a GCM back end the dispatcher IS the non-AEAD model", "AeadProofs.v", "protect_rtcp_any_internal"),
  ("", "AeadProofs.v", "unprotect_rtcp_any_internal"),
  ("AES-GCM SRTCP: what srtp_protect_rtcp_aead emits (header | ciphertext or plaintext | tag | E+index | MKI; RFC 7714 section 9)", "AeadRoundTripRtcp.v", "protect_rtcp_aead_wire"),
  ("AES-GCM SRTCP round trip, encrypted and unencrypted SRTCP, MKI, any alias mode on either side", "AeadRoundTripRtcp.v", "rtcp_aead_round_trip"),
  ("", "AeadRoundTripRtcp.v", "rtcp_aead_protect_unprotect"),
  ("evaluated", "AeadRoundTripRtcp.v", "AeadExample.g_unprotect_gives_pkt")], _AEAD_NOTE)
_ext("C04", "Aead AeadProofs AeadRoundTripRtcp AeadRoundTripRtp",
 [("AES-GCM SRTP: accepted exactly when GCM verifies (key, IV from salt / SSRC / estimated index, AAD = every octet before the ciphertext, ciphertext, tag)", "AeadRoundTripRtp.v", "unprotect_aead_accept_iff"),
  ("... and the packet is exactly AAD ++ ciphertext ++ tag ++ MKI: every header octet is authenticated", "AeadRoundTripRtp.v", "rtp_aead_rx_parts_cover"),
  ("AES-GCM SRTCP: the same, with the trailer (E bit and index) in the AAD", "AeadRoundTripRtcp.v", "unprotect_rtcp_aead_accept_iff"),
  ("", "AeadRoundTripRtcp.v", "rtcp_aead_rx_parts_cover"),
  ("evaluated: flipped header / payload octets are refused", "AeadRoundTripRtp.v", "AeadRtpExample.gcm_tamper_refused")], _AEAD_NOTE)
_ext("C10", "Aead AeadBoundsRtp AeadBoundsRtcp",
 [("AES-GCM: srtp_protect_aead never accesses outside the buffers (incl. RFC 6904 walk, cryptex shuffle, MKI write)", "AeadBoundsRtp.v", "protect_aead_no_oob"),
  ("AES-GCM: srtp_unprotect_aead, unconditional after the two fixes the proof attempt led to (cryptex shuffle undone before the RFC 6904 walk; extension must fit the decrypted packet)", "AeadBoundsRtp.v", "unprotect_aead_no_oob"),
  ("... the two former witnesses, now safe", "AeadBoundsRtp.v", "unprotect_aead_old_witness_safe"),
  ("", "AeadBoundsRtp.v", "unprotect_aead_overlong_extension_refused"),
  ("AES-GCM SRTCP", "AeadBoundsRtcp.v", "protect_rtcp_aead_no_oob"),
  ("", "AeadBoundsRtcp.v", "unprotect_rtcp_aead_no_oob")], _AEAD_NOTE)
_ext("C11", "Aead AeadBoundsRtp AeadBoundsRtcp TrailerProofs TrailerPostProofs",
 [("AES-GCM: output length = input + tag + MKI, within capacity", "AeadBoundsRtp.v", "protect_aead_length"),
  ("", "AeadBoundsRtp.v", "protect_aead_small_buffer_refused"),
  ("", "AeadBoundsRtp.v", "unprotect_aead_length"),
  ("AES-GCM SRTCP", "AeadBoundsRtcp.v", "protect_rtcp_aead_length"),
  ("", "AeadBoundsRtcp.v", "protect_rtcp_aead_small_buffer_status"),
  ("", "AeadBoundsRtcp.v", "unprotect_rtcp_aead_length"),
  ("nothing at or beyond the RETURNED length is written (stronger than the capacity bound; the unencrypted-SRTCP copy used to violate it)", "AeadBoundsRtcp.v", "protect_rtcp_aead_writes_below_length"),
  ("", "AeadBoundsRtcp.v", "unprotect_rtcp_aead_writes_below_length"),
  ("the trailer-length QUERY: it is the maximum over the template and every stream of the session (closed form), so it covers every stream that can process a packet", "TrailerProofs.v", "trailer_length_eq"),
  ("", "TrailerProofs.v", "trailer_length_ok_covers"),
  ("it fails (bad_param) exactly when no stream answers for that key index", "TrailerProofs.v", "trailer_length_fails_iff"),
  ("what srtp_protect appends is never more than the query on that session reports (all four packet functions)", "TrailerProofs.v", "protect_within_query"),
  ("", "TrailerProofs.v", "protect_rtcp_within_query"),
  ("", "TrailerProofs.v", "protect_aead_within_query"),
  ("", "TrailerProofs.v", "protect_rtcp_aead_within_query"),
  ("frame of a packet call (ANY result): it touches replay state / pending ROC / direction / budgets of the one stream it used, may charge the template's budgets and may append one clone of the template; keys, services, MKI setting of every stream are left alone", "TrailerPostProofs.v", "protect_frame"),
  ("... hence every stream keeps its trailer and a new clone has the template's", "TrailerPostProofs.v", "protect_keeps_streams"),
  ("... hence the query returns the same value before and after any packet call", "TrailerPostProofs.v", "trailer_length_stable"),
  ("", "TrailerPostProofs.v", "trailer_length_stable_rtcp"),
  ("", "TrailerPostProofs.v", "trailer_length_stable_aead"),
  ("", "TrailerPostProofs.v", "trailer_length_stable_rtcp_aead"),
  ("the query made AFTER the call covers what the call appended", "TrailerPostProofs.v", "protect_within_query_post"),
  ("", "TrailerPostProofs.v", "protect_rtcp_within_query_post"),
  ("", "TrailerPostProofs.v", "protect_aead_within_query_post"),
  ("", "TrailerPostProofs.v", "protect_rtcp_aead_within_query_post")], _AEAD_NOTE)
_ext("C12", "Aead AeadRoundTripRtcp AeadRoundTripRtp",
 [("AES-GCM: srtp_unprotect_aead refines a pure function for every input (streams without cryptex)", "AeadRoundTripRtp.v", "unprotect_aead_refines"),
  ("", "AeadRoundTripRtp.v", "unprotect_aead_alias_independent"),
  ("AES-GCM SRTCP", "AeadRoundTripRtcp.v", "unprotect_rtcp_aead_refines"),
  ("", "AeadRoundTripRtcp.v", "unprotect_rtcp_aead_alias_independent"),
  ("senders: the wire image does not depend on the alias mode or the prefill", "AeadRoundTripRtp.v", "protect_aead_wire"),
  ("", "AeadRoundTripRtcp.v", "protect_rtcp_aead_wire")], _AEAD_NOTE)

_ext("C03", "Aead AeadIvProofs",
 [("AES-GCM (RFC 7714 8.1): the model's SRTP IV equals an independent arithmetic specification (0x0000 || SSRC || ROC || SEQ xor salt), Spec/Rfc7714.v, which reproduces the RFC's section 16.1.1 / 17.1 packets", "AeadIvProofs.v", "aead_rtp_iv_spec"),
  ("AES-GCM (RFC 7714 9.1): SRTCP IV", "AeadIvProofs.v", "aead_rtcp_iv_spec"),
  ("AES-GCM AAD: header incl. CSRCs and extension (SRTP); 8-octet header or whole packet, then the E||index word (SRTCP)", "AeadIvProofs.v", "rtp_aad_model"),
  ("", "AeadIvProofs.v", "rtcp_aad_model")], _AEAD_NOTE)
_ext("C12", "AeadProtectFun AeadCryptexOop",
 [("AES-GCM: srtp_protect_aead refines a pure function at every exit (streams without cryptex, RFC 6904 allowed)", "AeadProtectFun.v", "protect_aead_refines"),
  ("", "AeadProtectFun.v", "protect_aead_alias_independent"),
  ("AES-GCM with cryptex: in place and out of place agree EXCEPT for the documented refusal (cryptex in use, out of place, CSRCs), stated exactly", "AeadProtectFun.v", "protect_aead_alias_cx"),
  ("AES-GCM: cryptex together with RFC 6904, out of place: alias dependent also under GCM (same known finding)", "AeadCryptexOop.v", "protect_aead_alias_cryptex_xtn_refuted")], "")
_ext("C01", "AeadProtectFun AeadCryptexOop",
 [("AES-GCM with cryptex, every mode the library supports (sender either mode, receiver in place or out of place without CSRCs)", "AeadCryptexOop.v", "rtp_aead_cryptex_protect_unprotect"),
  ("evaluated: cryptex together with RFC 6904 under GCM round-trips in place since fix 1e38386", "AeadCryptexOop.v", "gcm_cryptex_xtn_inplace_round_trip")], "")
