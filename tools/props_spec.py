# spec table for tools/mkprops.py:  SPECS[pid] = (header comment, imports, [(comment, file, lemma)], tail)
SPECS["C14"] = (
 "   C14: the session behaves as a map from SSRC to stream with wildcard fallback.  list_get / list_remove / list_insert\n"
 "   model srtp_stream_list_* (array with capacity doubling); lookup_or_clone is the sender-side dispatch of srtp_protect /\n"
 "   srtp_protect_rtcp; materialize (receiver side, after authentication) is covered by C13 / C17.",
 "From Srtp Require Import Util Constants KeyLimit Rdb Rdbx Icm World Stream Rtp Session TableProofs.",
 [("lookup after insert: earlier entries win, the new one is found when its SSRC was absent", "TableProofs.v", "list_get_app"),
  ("removing one SSRC never disturbs another", "TableProofs.v", "list_get_remove_other"),
  ("dictionary law under uniqueness; duplicates (which srtp_stream_add does not refuse) uncover the next entry", "TableProofs.v", "list_get_remove_same"),
  ("replace", "TableProofs.v", "list_get_replace"),
  ("growth of the internal table preserves every entry", "TableProofs.v", "list_insert_extends"),
  ("srtp_stream_remove succeeds exactly for SSRCs that have a stream, and touches nothing else", "TableProofs.v", "stream_remove_spec"),
  ("ROC accessors fail with bad_param exactly when the SSRC has no stream (the template does not count)", "TableProofs.v", "get_roc_fails_iff"),
  ("", "TableProofs.v", "set_roc_fails_iff"),
  ("dispatch: an explicit stream is used as is", "TableProofs.v", "lookup_explicit"),
  ("dispatch: neither stream nor wildcard -> no_ctx, nothing changes", "TableProofs.v", "lookup_no_ctx"),
  ("dispatch: wildcard -> an independent clone (template's keys, fresh replay state) inserted for that SSRC only", "TableProofs.v", "lookup_clone"),
  ("a second wildcard policy is refused and leaves the session unchanged", "TableProofs.v", "stream_add_second_template")],
 "")
SPECS["C15"] = (
 "   C15: re-keying keeps sequence state, switches keys and fails safely.  stream_update_specific / update_template model\n"
 "   stream_update / update_template_streams of srtp.c (after the fix b1bd97f that builds the replacement stream first).",
 "From Srtp Require Import Util Constants KeyLimit Rdb Rdbx Icm World Stream Rtp Session TableProofs UpdateProofs.",
 [("building a stream from a policy never touches the session", "UpdateProofs.v", "build_stream_session"),
  ("... and releases everything if it fails", "UpdateProofs.v", "build_stream_exit"),
  ("an update of an explicit stream that returns ANY error leaves the whole session (every stream, its keys, its replay state) and the live heap as they were", "UpdateProofs.v", "stream_update_specific_exit_cap"),
  ("a successful update: new keys, old index (ROC + highest sequence number) and SRTCP window, every other SSRC and the template untouched", "UpdateProofs.v", "stream_update_specific_ok"),
  ("wildcard update: every refusal before streams are moved leaves the session unchanged", "UpdateProofs.v", "ut_pre_exit"),
  ("", "UpdateProofs.v", "ut_pre_exit_heap"),
  ("", "UpdateProofs.v", "update_template_phases")],
 "")
SPECS["C16"] = (
 "   C16: srtp_stream_set_roc takes effect and later wraps still advance the ROC (after the fix f91f198).\n"
 "   index_step (RocProofs.v) is the estimate-then-commit step shared by srtp_protect and srtp_unprotect.",
 "From Srtp Require Import Util Constants KeyLimit Rdb Rdbx Icm World Stream Rtp Session IndexProofs TableProofs RocProofs.",
 [("set_roc records the ROC and changes nothing else", "RocProofs.v", "set_roc_effect"),
  ("the next packet is estimated with exactly that ROC", "RocProofs.v", "est_index_pending_spec"),
  ("r ahead of the current counter: the packet is always processed (ok or index-advance), never 'old'", "RocProofs.v", "est_index_after_set_roc"),
  ("after one processed packet the pending ROC is gone and the window sits at max(old index, r*2^16+seq) with ROC r", "RocProofs.v", "index_step_after_set_roc"),
  ("from then on estimation is the natural one: exact for every index within 2^15, across wraps", "RocProofs.v", "set_roc_then_follows_wraps"),
  ("the first wrap after set_roc r is processed with r+1", "RocProofs.v", "wrap_after_set_roc"),
  ("accessors: bad_param exactly for SSRCs without a stream (from TableProofs)", "TableProofs.v", "set_roc_fails_iff")],
 "")
SPECS["C17"] = (
 "   C17: no leak or double free on any path, including failure of any single allocation.  balanced w base says the live\n"
 "   block count equals base + everything the session owns (session_blocks).  All statements hold for EVERY initial heap,\n"
 "   i.e. for every position of the failing allocation (h_fail) and for none.",
 "From Srtp Require Import Util Constants KeyLimit Rdb Rdbx Icm World Stream Rtp Session HeapProofs.",
 [("srtp_create: success -> balanced session; any failure -> everything released", "HeapProofs.v", "session_create_balanced"),
  ("srtp_stream_add", "HeapProofs.v", "stream_add_balanced"),
  ("srtp_stream_remove", "HeapProofs.v", "stream_remove_balanced"),
  ("srtp_update, explicit stream", "HeapProofs.v", "stream_update_specific_balanced"),
  ("srtp_update, wildcard (after fix c8c46b3)", "HeapProofs.v", "update_template_balanced"),
  ("wildcard cloning on the sender side", "HeapProofs.v", "lookup_or_clone_balanced"),
  ("wildcard cloning on the receiver side", "HeapProofs.v", "materialize_balanced"),
  ("srtp_dealloc returns everything", "HeapProofs.v", "session_dealloc_releases"),
  ("any API sequence, any failure point: after srtp_dealloc nothing obtained by the library remains allocated", "HeapProofs.v", "no_leak_after_dealloc")],
 "")
