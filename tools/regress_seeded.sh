#!/bin/sh
# run every seeded change against the quick check of the property recorded in its meta.json (see run_seeded.sh for $VERIF_REPO)
V=$(cd "$(dirname "$0")/.." && pwd)
R=${VERIF_REPO:-/repo}
cd "$V"
for d in seeded/*/; do
  id=$(basename $d); p=$(python3 -c "import json;m=json.load(open('$d/meta.json'));print(m.get('check', m['property']))")
  echo "== $id ($p)"
  tools/run_seeded.sh "$V/$d" $p 2>&1 | grep -v KNOWN | tail -3 | cut -c1-200
done
git -C "$R" status --short | grep -v _build
