#!/bin/sh
# run every seeded change against the quick check of the property recorded in its meta.json
cd /verif
for d in seeded/*/; do
  id=$(basename $d); p=$(python3 -c "import json;print(json.load(open('$d/meta.json'))['property'])")
  echo "== $id ($p)"
  tools/run_seeded.sh /verif/$d $p 2>&1 | grep -v KNOWN | tail -3 | cut -c1-200
done
git -C /repo status --short | grep -v _build
