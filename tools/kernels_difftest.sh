#!/bin/sh
# kernels_difftest.sh <repo> <cbuild-dir> <coq-dir>
# Differential check of the translator: runs the C functions (portable paths, -U__SSE2__ -U__SSSE3__) on
# pseudo-random inputs and checks by vm_compute that the GENERATED Gallina functions of <coq-dir>/KernelGen.v
# (compiled) return the same values and array contents.  Not a proof: a sanity check of tools/gen_kernels.py.
set -e
R=$1; CB=$2; COQ=$3; T=$(mktemp -d); HERE=$(cd "$(dirname "$0")" && pwd)
clang -U__SSE2__ -U__SSSE3__ -w -DHAVE_CONFIG_H -I "$CB" -I "$R/include" -I "$R/crypto/include" "$HERE/kernels_difftest.c" \
  "$R/crypto/math/datatypes.c" "$R/crypto/kernel/alloc.c" "$R/crypto/kernel/err.c" "$R/crypto/replay/rdb.c" \
  "$R/crypto/replay/rdbx.c" -o "$T/h"
{ cat <<'EOV'
From Coq Require Import ZArith List.
From Srtp Require Import KernelGen.
Import ListNotations.
Local Open Scope Z_scope.
Definition rd (l : list Z) : Z -> Z := fun j => if j <? 0 then 12345 else nth (Z.to_nat j) l 54321.
Definition idx (n : nat) : list Z := map Z.of_nat (seq 0 n).
Definition chk (r : option (Z -> Z)) (n : nat) := match r with Some v => Some (map v (idx n)) | None => None end.
Definition chk2 (r : option (Z * (Z -> Z))) (n : nat) := match r with Some (l, v) => Some (l, map v (idx n)) | None => None end.
EOV
"$T/h"; } > "$T/Diff.v"
(cd "$T" && timeout 900 coqc -Q "$COQ" Srtp Diff.v) && echo "difftest: $(grep -c '^Goal' "$T/Diff.v") checks passed"
rm -rf "$T"
