#!/usr/bin/env python3
"""Regenerates MANIFEST.json from the table below (kept valid at all times)."""
import json, os
V = os.path.dirname(os.path.dirname(os.path.abspath(__file__)))
ids = [json.loads(l)["id"] for l in open(os.path.join(V, "properties.jsonl"))]

CLAIMED = {
 "C05": ("Theorems over the Gallina model of rdbx.c (any window size 1..32767, any delivery list): at-most-once, invariant "
         "bitmask<->accepted set, verdict on the next packet; tie = regenerated constants + differential runs of rdbx ops and "
         "srtp_unprotect histories against the extracted model + set-based monitor on the implementation's own verdicts.",
         "6.C05", "Coq proof by invariant over delivery lists + differential correspondence"),
 "C06": ("Theorems: estimate = true index for every pair of 48-bit indices closer than 2^15 (all ROC), closest-of-three, no ROC-1 at "
         "stream start; tie = constants + differential runs of srtp_index_guess/estimate and API histories over wraps.",
         "6.C06", "Coq proof (linear integer arithmetic over the transcribed estimator) + differential correspondence"),
 "C07": ("Theorems over the model of rdb.c: at-most-once for any delivery list, invariant, verdicts incl. forward jumps to 2^31-1, "
         "sender counter ceiling; tie = constants + differential runs + reference-set monitor.",
         "6.C07", "Coq proof by invariant over delivery lists + differential correspondence"),
 "C09": ("Theorems over the model of key.c for every budget and every history of updates: exact decrement, soft iff new budget in "
         "(0,2^16), hard iff exhausted, expiry permanent; tie = constants + differential runs with budgets poked next to thresholds.",
         "6.C09", "Coq proof by induction over update histories + differential correspondence"),
}
NOTE = ("Trusted: Coq 8.16.1 kernel; tools/gen_constants.py; extraction (ExtrOcamlBasic only) + harness/mdrv.ml; harness/cdrv*.c; "
        "gcc sanitizers. The C code is modelled (hand-written Gallina) and tied by differential correspondence on every run, not verified directly.")

checks = []
for i in ids:
    if i in CLAIMED:
        text, ref, tech = CLAIMED[i]
        checks.append({
            "property_id": i,
            "quick_cmd": f"bin/check {i} quick",
            "thorough_cmd": f"bin/check {i} thorough",
            "evidence_file": f"evidence/{i}.json",
            "replay_cmd_template": "bin/replay " + i + " {path}",
            "engine": "coq-model+correspondence",
            "level_claimed": {"category": "proof", "text": text, "design_ref": ref},
            "level_note": NOTE,
            "technique": tech,
        })
m = {
 "version": 1,
 "setup_cmd": "bin/setup",
 "hooks": {"guard": "CISCO_LIBSRTP_VERIF",
           "enable": "checks build /repo with -DCISCO_LIBSRTP_VERIF through the repo's own cmake lists (no source hook exists: the harness uses private headers, --wrap=calloc,free and srtp_replace_cipher_type)",
           "baseline_off_cmd": "cmake --build /repo/_build && ctest --test-dir /repo/_build -j8 --timeout 900",
           "source_commits": [], "add_only": True},
 "engines": [{"name": "coq-model+correspondence", "path": "lib/engine.py", "serves_properties": sorted(CLAIMED),
              "kind_free_text": "Coq 8.16 theorems over a hand-written Gallina model; model tied to /repo by regenerated constants and by differential execution of the extracted model against libsrtp built from the working tree under ASan/UBSan; property monitors on the implementation transcript produce the replay"}],
 "checks": checks,
 "notes": "See DESIGN.md. known_findings.json lists recorded findings and fixed defects.",
 "not_applicable": [{"property_id": i, "reason": "check not built yet (work in progress; DESIGN.md section 11 gives the order)"} for i in ids if i not in CLAIMED],
}
json.dump(m, open(os.path.join(V, "MANIFEST.json"), "w"), indent=1)
print("claimed:", sorted(CLAIMED))
