#!/usr/bin/env python3
"""Regenerates MANIFEST.json from the table below (kept valid at all times)."""
import json, os
V = os.path.dirname(os.path.dirname(os.path.abspath(__file__)))
ids = [json.loads(l)["id"] for l in open(os.path.join(V, "properties.jsonl"))]

T = "Coq 8.16 theorems over the hand-written Gallina model, closed by the kernel (no axioms); model tied to /repo on every run by regenerated constants and by differential execution of the extracted model against libsrtp (ASan/UBSan) on generated scripts; independent monitors on the implementation's transcript give the replay. "
CLAIMED = {
 "C01": (T + "Theorems: srtp_protect refines a pure function and what it emits is rtp_wire (header with RFC 6904 / cryptex transformations | payload xor keystream | MKI | tag over body||ROC) for the selected key and estimated index; the peer's srtp_unprotect on that wire image returns status ok, the original length and the byte-identical packet with no out-of-bounds access, for every packet of octets (any CSRC count, extension shape, payload length incl. empty), any MKI setting, encrypt+auth / auth-only / none, any alias mode on either side, for every explicit stream of the property's domain: plain, RFC 6904 header-extension encryption, cryptex (srtp_protect_unprotect_domain). Cryptex combined with RFC 6904 (outside the domain) is shown not to round-trip by evaluation. PARTIAL: GCM / AES-192 / other back ends are not built here; the wildcard-clone path is proved separately (C13/C14/C17) and exercised by the wildcard variants of the round-trip family. AES-GCM (RFC 7714; OpenSSL configuration, model Aead.v over a Gallina GCM cross-checked against OpenSSL and the RFC 7714 vectors): wire image of srtp_protect_aead and round trip for streams without cryptex (with or without RFC 6904) in every alias mode, cryptex in place with any CSRC count, the documented cryptex+CSRC out-of-place refusal on both sides; GCM round-trip family run against libsrtp built with OpenSSL.",
         "6.C01", "Coq proof (refinement of the monadic SRTP sender to a byte-level wire function + round-trip theorem for the receiver, all stream classes) + differential round-trip runs"),
 "C12": (T + "Theorems: the monadic models over explicit source/destination blocks with an alias flag refine pure functions of (session, packet bytes, capacity): srtp_protect_rtcp, srtp_unprotect_rtcp and srtp_unprotect for every input (valid, replayed, tampered, malformed) and every well-formed stream; srtp_protect for every input on every stream that does not combine cryptex with RFC 6904; hence status, length, output octets and final session are independent of the alias mode and of the destination's previous content, and the source is left alone. Known finding F16 (srtp_protect with cryptex AND RFC 6904, outside C01's domain) is refuted on the model by evaluation and replayed on the library. PARTIAL: explicit streams (wildcard-clone path covered by the four-modes differential family); AEAD paths not built in this configuration. AES-GCM (RFC 7714; OpenSSL configuration, model Aead.v over a Gallina GCM cross-checked against OpenSSL and the RFC 7714 vectors): srtp_unprotect_aead and srtp_unprotect_rtcp_aead refine pure functions for every input; sender wire images independent of the alias mode; GCM four-modes family incl. the documented refusal.",
         "6.C12", "Coq proof (refinement of the buffer-monad models to alias-free pure functions, all four packet functions) + four-modes differential runs"),
 "C02": (T + "Theorems: byte-level description of what srtp_protect_rtcp emits (header | body xor keystream when E | E+index | MKI | tag); the trailer's E flag and index are the ones the receiver extracts; the monadic protect/unprotect refine pure functions; unprotect_rtcp(protect_rtcp(p)) = p byte for byte with status ok, for every packet >= 8 octets, every MKI setting, encrypt+auth / auth-only / none, either alias mode on either side, for explicit streams of the internal crypto configuration. PARTIAL: GCM / AES-192 / other back ends are not built here; the wildcard-clone path is proved separately (C13/C14/C17). AES-GCM (RFC 7714; OpenSSL configuration, model Aead.v over a Gallina GCM cross-checked against OpenSSL and the RFC 7714 vectors): SRTCP wire image (RFC 7714 section 9: tag before the trailer, whole packet as AAD when unencrypted) and round trip in every alias mode; GCM SRTCP family in the OpenSSL configuration.",
         "6.C02", "Coq proof (refinement of the monadic SRTCP code to a byte-level wire function + round-trip theorem) + differential round-trip runs"),
 "C03": (T + "Theorems: the model's AES-ICM counter handling, IV formation (SRTP and SRTCP), keystream application and key derivation (labels 0..7, key/salt/auth lengths, 128- and 256-bit master keys) equal an independent Gallina specification written from RFC 3711 over AES-ECB only (with the RFC's B.2/B.3 vectors as Examples); SRTCP packet layout by C02's wire theorem. The check additionally runs the specification against libsrtp's packets (spec_rtp / spec_rtcp / spec_kdf ops). Known finding F8a (RFC 6904 keystream not positional) reported as KNOWN-FINDING. PARTIAL: GCM (RFC 7714), AES-192 (RFC 6188) and the other crypto back ends are not built in this configuration. In the OpenSSL configuration: the RFC 7714 known-answer packets carried by the repo's driver, and AES-ICM-128/192/256 + HMAC through the OpenSSL glue against the same RFC specification; AES-192 key derivation deviates from RFC 6188 (known finding aes192-kdf-not-rfc6188).",
         "6.C03", "Coq proof (model's crypto glue = independent RFC 3711 specification) + specification run against the library's packets"),
 "C04": (T + "Theorems: accepted by srtp_unprotect => tag octets = HMAC(k_a, all octets before the MKI || ROC); SRTCP: E bit / index from the trailer, tag over packet || trailer; the key used is the one the MKI names; tag comparison (model and both C chunk schedules) is equality; under an explicit collision-freeness premise accepted => authenticated portion is the sender's. Every single-bit flip / truncation / extension / splice of genuine packets compared with the model (which computes the real HMAC). PARTIAL: unforgeability of HMAC-SHA1 is a cryptographic assumption, replaced by an explicit idealisation premise. AES-GCM (RFC 7714; OpenSSL configuration, model Aead.v over a Gallina GCM cross-checked against OpenSSL and the RFC 7714 vectors): acceptance iff gcm_decrypt verifies with AAD = every octet before the ciphertext (SRTP) resp. header/packet + trailer (SRTCP); mutation families incl. delivery under a different rollover counter, in both configurations.",
         "6.C04", "Coq proof (tag-acceptance characterisation + idealised-MAC corollary) + mutation runs"),
 "C20": (T + "Theorems: in the wipe/free event trace of srtp_stream_dealloc / srtp_dealloc (a function of the session structure, sizes regenerated from the headers) every AES-ICM context, HMAC block and MKI copy is wiped in full immediately before it is freed, and every salt is wiped before the session-keys array is freed. The implementation's own events are compared event by event; every freed block is scanned for the secrets the model's KDF computes. PARTIAL: dead-store elimination / stack residue outside the model.",
         "6.C20", "Coq proof over the dealloc event trace + event-level correspondence + scan of freed blocks"),
 "C05": (T + "Theorems: for every window size and every delivery list no index is accepted twice; bitmap <-> accepted-set invariant; verdict on the next packet (copy / beyond effective window / fresh inside window).",
         "6.C05", "Coq proof by invariant over delivery lists + differential correspondence"),
 "C06": (T + "Theorems: estimate = true index for all 48-bit index pairs closer than 2^15 at every ROC; closest of ROC-1/ROC/ROC+1; no ROC-1 at stream start; receiver follows sender.",
         "6.C06", "Coq proof (integer arithmetic over the transcribed estimator) + differential correspondence"),
 "C07": (T + "Theorems: SRTCP at-most-once for any delivery list, invariant, verdicts incl. forward jumps to 2^31-1, sender counter ceiling.",
         "6.C07", "Coq proof by invariant over delivery lists + differential correspondence"),
 "C08": (T + "Theorems: indices under which srtp_protect encrypts are pairwise distinct for any sequence of sequence numbers; SRTCP index strictly increasing, stuck at 2^31-1 with key_expired; SRTP/SRTCP IV formation injective in (SSRC, index); counter block injective in the IV. IV log at the cipher boundary (wrapped cipher types) compared with the model's. GCM senders in the OpenSSL configuration with the GCM cipher types wrapped for IV logging (a repeated (key, IV) pair is fatal for GCM), incl. sender-side set_roc jumps.",
         "6.C08", "Coq proof (replay invariant reused for the sender + injectivity of IV encodings) + differential correspondence incl. IV log"),
 "C09": (T + "Theorems for every budget and every update history: exact decrement, soft iff new budget in (0,2^16), hard iff exhausted, expiry permanent (after fix 3993e2d). API runs with budgets poked next to the thresholds on explicit and wildcard-cloned streams. GCM streams (budget charged first on protect, after authentication on unprotect) in the OpenSSL configuration.",
         "6.C09", "Coq proof by induction over update histories + differential correspondence"),
 "C10": (T + "Theorems: for all worlds (any bytes, lengths, capacity, mode) the four packet functions never access outside [in,in+len) / [out,out+*out_len) (b_oob stays false) for well-formed sessions; every stream the library builds is well-formed; accepted policies fit tmp_tag/tmp_key. Sanitizers on exact-size buffers incl. packets forged by a key holder. PARTIAL: UB other than offsets is visible only to the sanitizers. AES-GCM (RFC 7714; OpenSSL configuration, model Aead.v over a Gallina GCM cross-checked against OpenSSL and the RFC 7714 vectors): no out-of-bounds access for all four AEAD functions, unconditionally after three fixes in /repo that the correspondence run and the proof attempts led to (unencrypted-SRTCP copy incl. the tag; RFC 6904 walk over the cryptex-shuffled header; extension longer than the decrypted packet).",
         "6.C10", "Coq proof (Hoare-style bounds over the buffer monad) + ASan/UBSan differential runs"),
 "C11": (T + "Theorems: output length = input +/- (tag + MKI (+4)), within capacity; small capacity refused; trailer of any accepted policy <= documented maxima. AES-GCM (RFC 7714; OpenSSL configuration, model Aead.v over a Gallina GCM cross-checked against OpenSSL and the RFC 7714 vectors): output lengths of the four AEAD functions, small-buffer refusal, and nothing written at or beyond the RETURNED length.",
         "6.C11", "Coq proof over the buffer monad + capacity sweeps"),
 "C13": (T + "Theorems: everything srtp_unprotect / srtp_unprotect_rtcp do up to and including authentication leaves session, heap and event log untouched; a call returning no_ctx/bad_mki/auth_fail/replay_*/pkt_idx_old/cant_check/buffer_small changes nothing; malformed input changes nothing at all. Twin-session runs with rejected packets interleaved (incl. after set_roc). AES-GCM (RFC 7714; OpenSSL configuration, model Aead.v over a Gallina GCM cross-checked against OpenSSL and the RFC 7714 vectors): pre phase up to and including the GCM verification writes nothing; rejected calls leave session / heap / events unchanged (after fix f26aed2: the key budget was charged before verification); twin-session family incl. authentic packets refused by the RFC 6904 step.",
         "6.C13", "Coq proof (frame property of the pre-authentication phase) + twin-session differential runs"),
 "C14": (T + "Theorems: dictionary laws of the stream table incl. growth; remove/ROC accessors succeed exactly for present SSRCs; dispatch explicit > wildcard clone > no_ctx; second wildcard refused.",
         "6.C14", "Coq proof (list-map refinement) + dictionary-monitored API histories"),
 "C15": (T + "Theorems: an update of an explicit stream that returns any error leaves the whole session and the heap unchanged (after fix b1bd97f); a successful one keeps index and SRTCP window, changes keys, touches no other SSRC; wildcard update refusals before the move phase change nothing.",
         "6.C15", "Coq proof over the session monad + re-key histories"),
 "C16": (T + "Theorems: set_roc records r and nothing else; next packet estimated with r; after one processed packet pending ROC cleared, ROC = r, and estimation is the natural one (exact within 2^15, wraps to r+1) (after fix f91f198).",
         "6.C16", "Coq proof (arithmetic of the imposed-ROC estimator + commit paths) + histories over two wraps"),
 "C17": (T + "Theorems: ownership balance (live blocks = base + blocks owned by the session) preserved by every API call on return AND on exit for every position of a failing allocation; after srtp_dealloc nothing remains, for any API sequence (after fixes c8c46b3, 278a66d). Fail-the-n-th-allocation sweeps under ASan/LSan with live-block counting. PARTIAL: the real allocator and third-party objects are outside the model.",
         "6.C17", "Coq proof (Hoare triples on the heap counter for all failure schedules) + fault-injection sweeps"),
 "C18": (T + "Theorems: AES-ICM state machine = counter-mode keystream for every chunking, terminus exactly at 65535 blocks; SHA-1 buffering/padding = FIPS 180-4 and HMAC = RFC 2104 for every chunking (parametric in the compression function); constant-time compare = equality for both schedules; word-loop shifts = shift of the packed window. aes.c / SHA-1 rounds are COMPARED (C vs Gallina FIPS functions vs hashlib/openssl), not proved.",
         "6.C18", "Coq proof of the chunking/padding/compare/shift logic + three-way differential runs"),
 "C19": (T + "Theorems: (regenerated from /repo by a clang-AST translator on every run) no function reachable from a session-API entry point writes a process global outside debug-only code; generic theorem: with an unmodified shared component every interleaving gives each thread its sequential outputs. ThreadSanitizer run of N threads on own sessions vs sequential digests. PARTIAL: memory model / libc / pointer-mediated sharing outside the theorem.",
         "6.C19", "Coq proof over a call graph regenerated from the source + TSan supporting run"),
}
NOTE = ("Trusted: Coq 8.16.1 kernel; tools/gen_constants.py; extraction (ExtrOcamlBasic only) + harness/mdrv.ml; harness/cdrv*.c; "
        "gcc sanitizers. The C code is modelled (hand-written Gallina) and tied by differential correspondence on every run, not verified directly.")

KERNEL_TIE = {"C05": "srtp_rdbx_check / srtp_rdbx_add_index / bitvector_left_shift", "C06": "srtp_index_guess / srtp_rdbx_estimate_index / srtp_estimate_index",
              "C07": "srtp_rdb_check / srtp_rdb_add_index / v128_left_shift", "C08": "srtp_rdbx_check / srtp_rdbx_add_index / srtp_rdb_increment",
              "C09": "srtp_key_limit_update / srtp_key_limit_set", "C16": "srtp_estimate_index / srtp_rdbx_set_roc_seq",
              "C18": "v128_left_shift / bitvector_left_shift / bitvector_set_to_zero"}
checks = []
for i in ids:
    if i in CLAIMED:
        text, ref, tech = CLAIMED[i]
        if i in KERNEL_TIE:
            text += (" Second tie (translator): the integer kernels this property rests on (" + KERNEL_TIE[i] + ") are translated from the C text of /repo on every run "
                     "(tools/gen_kernels.py, clang AST -> Gallina) and PROVED equal to the hand-written kernel models on the whole range of the C types "
                     "(KernelGenProofs.v, KernelGenProofs2.v); when that proof breaks, coq/KernelSearch.v searches boundary grids inside the theorems' hypotheses "
                     "for an input on which code and model differ and reports it as the replay.")
        checks.append({
            "property_id": i,
            "quick_cmd": f"bin/check {i} quick",
            "thorough_cmd": f"bin/check {i} thorough",
            "evidence_file": f"evidence/{i}.json",
            "replay_cmd_template": "bin/replay " + i + " {path}",
            "engine": "coq-model+correspondence",
            "level_claimed": {"category": "proof", "text": text, "design_ref": ref},
            "level_note": NOTE,
            "technique": tech,
        })
m = {
 "version": 1,
 "setup_cmd": "bin/setup",
 "hooks": {"guard": "CISCO_LIBSRTP_VERIF",
           "enable": "checks build /repo with -DCISCO_LIBSRTP_VERIF through the repo's own cmake lists (no source hook exists: the harness uses private headers, --wrap=calloc,free and srtp_replace_cipher_type)",
           "baseline_off_cmd": "cmake --build /repo/_build && ctest --test-dir /repo/_build -j8 --timeout 900",
           "source_commits": [], "add_only": True},
 "engines": [{"name": "coq-model+correspondence", "path": "lib/engine.py", "serves_properties": sorted(CLAIMED),
              "kind_free_text": "Coq 8.16 theorems over a hand-written Gallina model; model tied to /repo by regenerated constants and by differential execution of the extracted model against libsrtp built from the working tree under ASan/UBSan; property monitors on the implementation transcript produce the replay"}],
 "checks": checks,
 "notes": "See DESIGN.md. known_findings.json lists recorded findings and fixed defects.",
 "not_applicable": [{"property_id": i, "reason": "checks run (correspondence + monitors, see lib/props) but the Coq theorems for this property are still being proved; not claimed until they compile"} for i in ids if i not in CLAIMED],
}
json.dump(m, open(os.path.join(V, "MANIFEST.json"), "w"), indent=1)
print("claimed:", sorted(CLAIMED))
