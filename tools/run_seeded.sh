#!/bin/sh
# tools/run_seeded.sh <seeded dir> <check id>...  — apply a seeded change to /repo, run the checks, undo it
d=$1; shift
cd /repo && git apply "$d/patch.diff" || exit 2
cd /verif
for c in "$@"; do
  out=$(bin/check $c quick 2>&1)
  echo "$out" | grep -E "^VIOLATION|^KNOWN|quick:" | cut -c1-220
done
git -C /repo checkout -- .
