#!/bin/sh
# tools/run_seeded.sh <seeded dir> <check id>...  — apply a seeded change to the repository under test, run the checks, undo it.
# The repository is $VERIF_REPO (default /repo); the checks are the ones of the /verif copy this script lives in, so an isolated
# regression can run from a clone of /verif against a scratch worktree while /repo itself stays untouched.
d=$1; shift
R=${VERIF_REPO:-/repo}
V=$(cd "$(dirname "$0")/.." && pwd)
cd "$R" && git apply "$d/patch.diff" || exit 2
cd "$V"
for c in "$@"; do
  out=$(bin/check $c quick 2>&1)
  echo "$out" | grep -E "^VIOLATION|^KNOWN|quick:" | cut -c1-220
done
git -C "$R" checkout -- .
