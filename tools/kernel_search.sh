#!/bin/bash
# kernel_search.sh <repo> <cbuild> <coqdir-with-compiled-models> <outfile>
#
# Regenerates KernelGen.v from the C text of <repo> into a scratch directory, compiles it and KernelSearch.v there against
# the compiled models of <coqdir> (Util/Constants/KeyLimit/Rdb/Rdbx/BitvecModel .vo; the proof files are not used), and
# writes to <outfile> one TAB-separated line per generated function:
#
#     <function> <TAB> fail=<number of failing grid inputs> <TAB> grid=<grid size> <TAB> inhyp=<grid points inside the hypotheses>
#                <TAB> input=<first failing input> <TAB> gen=<generated result> <TAB> model=<model result>
#
# (input/gen/model are "-" when there is no failing input), then one line  guard_rdbx_check_overflow_case ...  (the
# `_refuted` overflow case is outside the guard: "false" expected first).
# A result is  Some (scalars, words, extra)  as described at the head of KernelSearch.v, or None (out of fuel).
#
# Exit status: 0 whenever the search ran (differences or not); non-zero only if the tooling failed:
#   2 usage / missing files, 3 the translator failed or refused a function (<outfile> names it), 4 coqc failed,
#   5 the report could not be parsed / the freshly generated KernelGen was not the one loaded.
# KernelSearch.v is taken from <coqdir>, else from $KERNEL_SEARCH_V, else from the directory of this script (coq/).
set -u
here="$(cd "$(dirname "${BASH_SOURCE[0]}")" && pwd)"
if [ $# -ne 4 ]; then echo "usage: $0 <repo> <cbuild> <coqdir> <outfile>" >&2; exit 2; fi
repo="$(realpath "$1")"; cb="$(realpath "$2")"; coqdir="$(realpath "$3")"; out="$(realpath -m "$4")"
gen="${GEN_KERNELS:-$here/gen_kernels.py}"
[ -f "$gen" ] || gen="$here/tools/gen_kernels.py"
ks="${KERNEL_SEARCH_V:-$coqdir/KernelSearch.v}"
[ -f "$ks" ] || ks="$here/coq/KernelSearch.v"
for f in "$gen" "$ks" "$coqdir/Rdbx.vo" "$coqdir/Rdb.vo" "$coqdir/KeyLimit.vo" "$coqdir/BitvecModel.vo"; do
  [ -f "$f" ] || { echo "kernel_search: missing $f" >&2; exit 2; }
done
scratch="$(mktemp -d "${TMPDIR:-/tmp}/kernel_search.XXXXXX")" || exit 2
trap 'rm -rf "$scratch"' EXIT
: > "$out" || exit 2

# 1. regenerate
if ! python3 "$gen" "$repo" "$cb" "$scratch/KernelGen.v" > "$scratch/gen.log" 2>&1; then
  { echo "TOOL-FAILURE	gen_kernels.py failed"; sed 's/^/# /' "$scratch/gen.log"; } >> "$out"
  cat "$scratch/gen.log" >&2; exit 3
fi
if [ -s "$scratch/KernelGen.v.failed" ]; then
  # a function the translator refused (Unsupported construct) has no _gen: nothing can be searched for it
  while IFS= read -r line; do [ -n "$line" ] && echo "${line%%:*}	UNTRANSLATED	${line#*: }" >> "$out"; done < "$scratch/KernelGen.v.failed"
  echo "kernel_search: the translator refused some functions (see $out)" >&2; exit 3
fi

# 2. compile.  NOTE the order: with two -Q on the same logical root coqc resolves a library in the LAST one that has it, so
#    the scratch directory must come last for the fresh KernelGen.vo to shadow <coqdir>/KernelGen.vo (checked by Probe.v).
Q=(-Q "$coqdir" Srtp -Q "$scratch" Srtp)
cp "$ks" "$scratch/KernelSearch.v"
printf 'From Srtp Require KernelGen.\nLocate Library Srtp.KernelGen.\n' > "$scratch/Probe.v"
cd "$scratch" || exit 2
if ! timeout 900 coqc "${Q[@]}" KernelGen.v > kg.log 2>&1; then
  { echo "TOOL-FAILURE	coqc KernelGen.v failed"; sed 's/^/# /' kg.log; } >> "$out"; cat kg.log >&2; exit 4
fi
if ! timeout 900 coqc "${Q[@]}" Probe.v > probe.log 2>&1 || ! tr '\n' ' ' < probe.log | grep -q "loaded from file *$scratch/KernelGen.vo"; then
  { echo "TOOL-FAILURE	the regenerated KernelGen.vo is not the one loaded"; sed 's/^/# /' probe.log; } >> "$out"; cat probe.log >&2; exit 5
fi
if ! timeout 900 coqc "${Q[@]}" KernelSearch.v > ks.log 2>&1; then
  # typically: a mutant changed the SIGNATURE of a generated function (new parameter / new object reached)
  { echo "TOOL-FAILURE	coqc KernelSearch.v failed"; sed 's/^/# /' ks.log; } >> "$out"; cat ks.log >&2; exit 4
fi

# 3. parse the report lines   = ("name", grid, inhyp, fail, [(input..., gen, model); ...])
python3 - ks.log "$out" <<'EOF'
import sys, re
log, out = sys.argv[1:3]
def split_top(s):
    """split s on the commas / semicolons at bracket depth 0"""
    parts, depth, cur, instr = [], 0, "", False
    for ch in s:
        if ch == '"': instr = not instr
        if not instr:
            if ch in "([": depth += 1
            elif ch in ")]": depth -= 1
            elif ch in ",;" and depth == 0:
                parts.append(cur.strip()); cur = ""; continue
        cur += ch
    if cur.strip(): parts.append(cur.strip())
    return parts
# a report may be wrapped over several lines if the printing width is ever too small: join until the type line
entries, cur = [], None
for line in open(log):
    line = line.rstrip("\n")
    if line.startswith("     = "): cur = line[7:]
    elif line.startswith("     : "):
        if cur is not None: entries.append(cur); cur = None
    elif cur is not None: cur += " " + line.strip()
lines, nfun = [], 0
for e in entries:
    e = e.strip()
    if not (e.startswith("(") and e.endswith(")")): continue
    f = split_top(e[1:-1])
    name = f[0].strip('"')
    if name.startswith("guard_"):
        lines.append(name + "\t" + "\t".join(f[1:])); continue
    if len(f) != 5: sys.exit("kernel_search: cannot parse: " + e[:200])
    grid, inhyp, nfail, fl = f[1], f[2], f[3], f[4]
    first = split_top(fl[1:-1])
    if first:
        t = split_top(first[0][1:-1])
        inp, g, m = "(" + ", ".join(t[:-2]) + ")" if len(t) > 3 else t[0], t[-2], t[-1]
    else:
        inp = g = m = "-"
    if (int(nfail) == 0) != (not first): sys.exit("kernel_search: inconsistent entry: " + e[:200])
    lines.append(f"{name}\tfail={nfail}\tgrid={grid}\tinhyp={inhyp}\tinput={inp}\tgen={g}\tmodel={m}"); nfun += 1
if nfun != 17: sys.exit(f"kernel_search: {nfun} report lines instead of 17")
open(out, "a").write("\n".join(lines) + "\n")
EOF
rc=$?
if [ $rc -ne 0 ]; then echo "TOOL-FAILURE	report not parsed" >> "$out"; exit 5; fi
exit 0
