#!/usr/bin/env python3
"""gen_globals.py <repo> <cbuild-dir> <out.v>

Regenerates coq/GlobalsGen.v from /repo's current working tree: for every function
defined in the library sources, which process-global (static-storage, non-const)
variables it WRITES outside debug-only regions, and which functions it CALLS outside
debug-only regions.  Source of truth: clang's JSON AST of each library source file
(compiled with the configured include path; SSE intrinsics headers are kept out with
-U__SSE2__ -U__SSSE3__, which only selects the portable variants of three functions
in datatypes.c).

  write        = assignment / compound assignment / ++ / -- whose target, after stripping
                 member accesses, array subscripts, casts and parentheses, is a variable
                 with static storage duration (file scope or `static` local) that is not
                 const-qualified; plus passing such a variable's address (or the array
                 itself) to memset / memcpy / memmove / snprintf-style writers; plus (escape rule)
                 passing `&g...` or a static-storage array to ANY callee through a parameter whose
                 pointee type is not const.
  debug-only   = inside the then-branch of `if (<module>.on)` — the expansion of
                 debug_print / debug_print0 — where <module> is a global debug module.
  indirect call= call through a struct field or function pointer: resolved to every
                 function that appears in the initializer of a cipher / auth type
                 descriptor (srtp_cipher_type_t / srtp_auth_type_t) plus the two global
                 handlers (event / log), which are user callbacks outside the library.
"""
import json, os, subprocess, sys

LIB_DIRS = ["srtp", "crypto/cipher", "crypto/hash", "crypto/kernel", "crypto/math", "crypto/replay"]
WRITERS = {"memset", "memcpy", "memmove", "snprintf", "sprintf", "strcpy", "strncpy", "octet_string_set_to_zero",
           "srtp_cleanse", "vsnprintf"}


def internal_sources(repo):
    """the sources the configured build compiles (internal crypto): from compile_commands.json of the cmake build"""
    out = []
    return out


def ast_of(repo, cb, src):
    cmd = ["clang", "-U__SSE2__", "-U__SSSE3__", "-Xclang", "-ast-dump=json", "-fsyntax-only", "-w", "-DHAVE_CONFIG_H",
           "-I", cb, "-I", f"{repo}/include", "-I", f"{repo}/crypto/include", src]
    r = subprocess.run(cmd, capture_output=True, text=True)
    if not r.stdout.strip():
        sys.stderr.write(r.stderr[-2000:])
        raise SystemExit(f"clang failed on {src}")
    return json.loads(r.stdout)


def strip(n):
    """peel casts / parens / member / subscript down to the base expression"""
    while isinstance(n, dict) and n.get("kind") in ("ImplicitCastExpr", "ParenExpr", "CStyleCastExpr", "MemberExpr",
                                                      "ArraySubscriptExpr", "UnaryOperator"):
        if n["kind"] == "UnaryOperator" and n.get("opcode") not in ("*", "&"):
            break
        inner = n.get("inner", [])
        if not inner:
            break
        n = inner[0]
    return n


class Analyzer:
    def __init__(self):
        self.globals = {}      # id -> (name, const?)
        self.writes = {}       # fn -> set(global names)
        self.calls = {}        # fn -> set(callee names)
        self.indirect = {}     # fn -> bool
        self.descriptor_fns = set()
        self.debug_writes = {}
        self.fn_defs = set()
        self.callee_ids = set()

    def collect_globals(self, tu, srcname):
        def visit(n, in_fn):
            if not isinstance(n, dict):
                return
            k = n.get("kind")
            if k == "VarDecl":
                static_local = in_fn and n.get("storageClass") == "static"
                if (not in_fn and not n.get("isImplicit")) or static_local:
                    qt = n.get("type", {}).get("qualType", "")
                    is_const = qt.startswith("const ") or " const" in qt.split("[")[0].split("(")[0]
                    if n.get("storageClass") != "extern" or True:
                        self.globals[n["id"]] = (n.get("name", "?"), is_const, qt)
                    # descriptor initialisers: functions referenced from cipher/auth type tables
                    if "srtp_cipher_type_t" in qt or "srtp_auth_type_t" in qt:
                        for m in self.walk(n):
                            if m.get("kind") == "DeclRefExpr" and m.get("referencedDecl", {}).get("kind") == "FunctionDecl":
                                self.descriptor_fns.add(m["referencedDecl"]["name"])
            for c in n.get("inner", []) or []:
                visit(c, in_fn or k == "FunctionDecl")
        visit(tu, False)

    def walk(self, n):
        if isinstance(n, dict):
            yield n
            for c in n.get("inner", []) or []:
                yield from self.walk(c)

    def is_debug_cond(self, cond):
        b = cond
        while isinstance(b, dict) and b.get("kind") in ("ImplicitCastExpr", "ParenExpr"):
            b = (b.get("inner") or [None])[0]
        if isinstance(b, dict) and b.get("kind") == "MemberExpr" and b.get("name") == "on":
            base = strip(b)
            if base.get("kind") == "DeclRefExpr":
                return True
        return False

    def global_target(self, expr):
        base = strip(expr)
        if isinstance(base, dict) and base.get("kind") == "DeclRefExpr":
            rd = base.get("referencedDecl", {})
            g = self.globals.get(rd.get("id"))
            if g and rd.get("kind") == "VarDecl":
                return g
        return None

    def escaping_global(self, arg):
        qt = arg.get("type", {}).get("qualType", "") if isinstance(arg, dict) else ""
        if "*" not in qt or qt.startswith("const "):
            return None
        n = arg
        while isinstance(n, dict):
            k = n.get("kind")
            if k == "UnaryOperator" and n.get("opcode") == "&":
                return self.global_target(n["inner"][0])
            if k == "ImplicitCastExpr" and n.get("castKind") == "ArrayToPointerDecay":
                return self.global_target(n["inner"][0])
            if k in ("ImplicitCastExpr", "ParenExpr", "CStyleCastExpr"):
                n = (n.get("inner") or [None])[0]
                continue
            return None
        return None

    def analyze_fn(self, fn):
        name = fn["name"]
        self.fn_defs.add(name)
        W, C, DW = self.writes.setdefault(name, set()), self.calls.setdefault(name, set()), self.debug_writes.setdefault(name, set())
        self.indirect.setdefault(name, False)

        def visit(n, dbg):
            if not isinstance(n, dict):
                return
            k = n.get("kind")
            if k == "IfStmt":
                inner = n.get("inner", [])
                if inner and self.is_debug_cond(inner[0]):
                    visit(inner[0], dbg)
                    if len(inner) > 1:
                        visit(inner[1], True)
                    for c in inner[2:]:
                        visit(c, dbg)
                    return
            if k in ("BinaryOperator", "CompoundAssignOperator") and (n.get("opcode", "").endswith("=") and n.get("opcode") not in ("==", "!=", "<=", ">=")):
                g = self.global_target(n["inner"][0])
                if g and not g[1]:
                    (DW if dbg else W).add(g[0])
            if k == "UnaryOperator" and n.get("opcode") in ("++", "--"):
                g = self.global_target(n["inner"][0])
                if g and not g[1]:
                    (DW if dbg else W).add(g[0])
            if k == "CallExpr":
                inner = n.get("inner", [])
                callee = inner[0] if inner else {}
                c = callee
                while isinstance(c, dict) and c.get("kind") in ("ImplicitCastExpr", "ParenExpr"):
                    c = (c.get("inner") or [None])[0]
                if isinstance(c, dict) and c.get("kind") == "DeclRefExpr" and c.get("referencedDecl", {}).get("kind") == "FunctionDecl":
                    cn = c["referencedDecl"]["name"]
                    self.callee_ids.add(c.get("id"))
                    if not dbg:
                        C.add(cn)
                    if cn in WRITERS and len(inner) > 1:
                        g = self.global_target(inner[1])
                        if g and not g[1]:
                            (DW if dbg else W).add(g[0])
                elif not dbg:
                    self.indirect[name] = True
                # escape rule: handing the address of a static-storage variable (or an array with static storage,
                # which decays to its address) to any callee through a pointer-to-non-const parameter counts as a write
                for a in inner[1:]:
                    g = self.escaping_global(a)
                    if g and not g[1]:
                        (DW if dbg else W).add(g[0])
            # general escape rule: the address of a mutable static-storage variable (`&g`, `&g.f`, or such an array decaying to a
            # pointer) that is STORED, RETURNED or used as an initialiser — anything but an immediate subscript / member access /
            # call argument (handled above) — lets later code write the variable through the pointer: counted as a write here
            # (seeded change C19-d: `*c = &static_instance; (*c)->key_len = ...`)
            if k in ("BinaryOperator", "ReturnStmt", "VarDecl", "InitListExpr", "ConditionalOperator") and not (k == "BinaryOperator" and n.get("opcode") != "="):
                for ch in (n.get("inner", []) or [])[(1 if k == "BinaryOperator" else 0):]:
                    g = self.escaping_global(ch)
                    if g and not g[1]:
                        (DW if dbg else W).add(g[0])
            for ch in n.get("inner", []) or []:
                visit(ch, dbg)
        visit(fn, False)


def coq_str(s):
    return '"' + s.replace('"', '""') + '"'


def main():
    repo, cb, out = sys.argv[1:4]
    # sources of the configured build
    cc = json.load(open(os.path.join(cb, "compile_commands.json")))
    srcs = sorted({e["file"] for e in cc if any(("/" + d + "/") in e["file"] for d in LIB_DIRS)})
    A = Analyzer()
    tus = []
    for s in srcs:
        tu = ast_of(repo, cb, s)
        tus.append(tu)
        A.collect_globals(tu, s)
    libnames = set()
    for tu in tus:
        for n in tu.get("inner", []):
            if n.get("kind") == "FunctionDecl" and any(c.get("kind") == "CompoundStmt" for c in n.get("inner", []) or []):
                # only functions written in the library's own files
                f = json.dumps(n.get("range", {}))
                A.analyze_fn(n)
                libnames.add(n["name"])
    # every library function whose address is taken (descriptor tables, default handlers, callbacks) is a possible
    # target of an indirect call
    for tu in tus:
        for m in A.walk(tu):
            if m.get("kind") == "DeclRefExpr" and m.get("referencedDecl", {}).get("kind") == "FunctionDecl" and m.get("id") not in A.callee_ids:
                A.descriptor_fns.add(m["referencedDecl"]["name"])
    gl = sorted({g[0] for g in A.globals.values() if not g[1]})
    used = sorted({w for f in A.writes for w in A.writes[f]} | {w for f in A.debug_writes for w in A.debug_writes[f]})
    lines = ["(* GENERATED by tools/gen_globals.py from /repo — do not edit *)",
             "From Coq Require Import String List.", "Import ListNotations.", "Local Open Scope string_scope.", "",
             "(* non-const variables with static storage duration that some library function writes *)",
             "Definition written_globals : list string := [" + "; ".join(coq_str(g) for g in used) + "].", "",
             "(* functions whose address is stored in a cipher / auth type descriptor: targets of indirect calls *)",
             "Definition descriptor_fns : list string := [" + "; ".join(coq_str(f) for f in sorted(A.descriptor_fns & libnames)) + "].", "",
             "(* fn, globals written outside debug-only regions, direct callees outside debug-only regions, makes indirect calls *)",
             "Definition fn_table : list (string * (list string * (list string * bool))) := ["]
    rows = []
    for f in sorted(libnames):
        w = sorted(A.writes.get(f, ()))
        c = sorted(x for x in A.calls.get(f, ()) if x in libnames)
        rows.append(f"  ({coq_str(f)}, ([" + "; ".join(coq_str(x) for x in w) + "], ([" + "; ".join(coq_str(x) for x in c) + "], "
                    + ("true" if A.indirect.get(f) else "false") + ")))")
    lines.append(";\n".join(rows))
    lines.append("].")
    lines.append("")
    lines.append("(* writes that only happen with a debug module switched on *)")
    lines.append("Definition debug_only_writes : list (string * list string) := [" +
                 "; ".join(f"({coq_str(f)}, [" + "; ".join(coq_str(x) for x in sorted(v)) + "])" for f, v in sorted(A.debug_writes.items()) if v) + "].")
    open(out, "w").write("\n".join(lines) + "\n")


if __name__ == "__main__":
    main()
