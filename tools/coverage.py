#!/usr/bin/env python3
"""tools/coverage.py [tier] [ids...] — developer aid, NOT a registered check.

Builds libsrtp from /repo's working tree with gcc --coverage (no sanitizers), links cdrv against
it, feeds it every script the families of the given properties (default: all) generate for the
tier (default quick), then runs gcov over the library sources and prints, per source file, line
coverage and the uncovered line ranges inside functions that were entered at least once or that
belong to the modelled files.  The point: the correspondence check can only tie what the
implementation side actually executes; lines never reached by any family are where a breaking
change would go unnoticed.  Output: .cache/coverage/<file>.gcov and a summary on stdout (also
written to .cache/coverage/SUMMARY.txt)."""
import importlib, inspect, os, re, shutil, subprocess, sys
V = os.path.dirname(os.path.dirname(os.path.abspath(__file__)))
sys.path.insert(0, V); sys.path.insert(0, os.path.join(V, "lib"))
from lib import vlib
from concurrent.futures import ThreadPoolExecutor

tier = sys.argv[1] if len(sys.argv) > 1 else "quick"
ids = sys.argv[2:] or [f"C{i:02d}" for i in range(1, 21)]
out = os.path.join(vlib.CACHE, "coverage")
shutil.rmtree(out, ignore_errors=True); os.makedirs(out)
cb = os.path.join(out, "cb")
REPO = vlib.REPO
r = vlib.sh(["cmake", "-G", "Ninja", "-S", REPO, "-B", cb, "-DCMAKE_BUILD_TYPE=None",
             f"-DCMAKE_C_FLAGS=-O0 -g --coverage -D{vlib.GUARD}", "-DLIBSRTP_TEST_APPS=OFF", "-DENABLE_WARNINGS_AS_ERRORS=OFF"], timeout=300)
assert r.returncode == 0, r.stderr
r = vlib.sh(["cmake", "--build", cb, "--target", "srtp3"], timeout=900)
assert r.returncode == 0, r.stdout[-3000:]
hs = os.path.join(V, "harness")
r = vlib.sh(["gcc", "-O0", "-g", "--coverage", "-D" + vlib.GUARD, "-DHAVE_CONFIG_H", "-I", cb, "-I", f"{REPO}/include", "-I", f"{REPO}/crypto/include",
             f"{hs}/cdrv.c", f"{hs}/cdrv_api.c", os.path.join(cb, "libsrtp3.a"),
             "-Wl,--wrap=calloc,--wrap=free,--wrap=octet_string_set_to_zero", "-lpthread", "-o", os.path.join(out, "cdrv")], timeout=300)
assert r.returncode == 0, r.stderr[-3000:]

cdir = vlib.build_c("internal")
qdir, status = vlib.build_coq(cdir)
scripts = []
for pid in ids:
    P = importlib.import_module("props." + pid)
    if len(inspect.signature(P.families).parameters) >= 3:
        fams = P.families(tier, 1, {"cdir": cdir, "qdir": qdir, "status": status})
    else:
        fams = P.families(tier, 1)
    for f in fams:
        if f.config == "internal":
            scripts += [(pid, f.name, t) for _, t in f.scripts]
print(f"{len(scripts)} scripts from {len(ids)} properties, tier {tier}")

def one(item):
    subprocess.run([os.path.join(out, "cdrv")], input=item[2], capture_output=True, text=True, timeout=600)
with ThreadPoolExecutor(max_workers=8) as ex:
    list(ex.map(one, scripts))

objdir = os.path.join(cb, "CMakeFiles", "srtp3.dir")
gcdas = []
for d, _, fs in os.walk(objdir):
    gcdas += [os.path.join(d, f) for f in fs if f.endswith(".gcda")]
summary = []
for g in sorted(gcdas):
    r = subprocess.run(["gcov", "-b", "-o", os.path.dirname(g), g], cwd=out, capture_output=True, text=True)
for f in sorted(os.listdir(out)):
    if not f.endswith(".c.gcov"):
        continue
    lines = open(os.path.join(out, f), errors="replace").read().split("\n")
    total = hit = 0
    unc = []
    for ln in lines:
        m = re.match(r"\s*([^:]+):\s*(\d+):(.*)", ln)
        if not m or m.group(2) == "0":
            continue
        c = m.group(1).strip()
        if c == "-":
            continue
        total += 1
        if c.startswith("#####") or c.startswith("====="):
            unc.append(int(m.group(2)))
        else:
            hit += 1
    rng, s = [], None
    for n in unc:
        if s is None: s = p = n
        elif n <= p + 2: p = n
        else: rng.append((s, p)); s = p = n
    if s is not None: rng.append((s, p))
    summary.append(f"{f[:-5]:28s} {hit:5d}/{total:5d} lines  uncovered: " + " ".join(f"{a}-{b}" if a != b else str(a) for a, b in rng))
txt = "\n".join(summary)
open(os.path.join(out, "SUMMARY.txt"), "w").write(txt + "\n")
print(txt)
