#include <stdio.h>
#include <stdlib.h>
#include <string.h>
#include "datatypes.h"
#include "rdb.h"
#include "rdbx.h"
static uint64_t st = 88172645463325252ull;
static uint64_t rnd(void) { st ^= st << 13; st ^= st >> 7; st ^= st << 17; return st; }
static void pw(const uint32_t *w, int n) { printf("["); for (int i = 0; i < n; i++) printf("%s%u", i ? "; " : "", w[i]); printf("]"); }
int main(void) {
    /* each line: a Coq term  (computed-by-gen, expected-from-C)  checked by vm_compute */
    for (int t = 0; t < 40; t++) {           /* v128_left_shift */
        v128_t x; for (int i = 0; i < 4; i++) x.v32[i] = (uint32_t)rnd();
        size_t sh = (t % 5 == 0) ? (rnd() % 4) * 32 : (t % 7 == 0 ? rnd() : rnd() % 140);
        printf("Goal chk (v128_left_shift_gen 4 %lu (rd ", sh); pw(x.v32, 4);
        v128_left_shift(&x, sh);
        printf(")) 4 = Some "); pw(x.v32, 4); printf(". Proof. vm_compute. reflexivity. Qed.\n");
    }
    for (int t = 0; t < 40; t++) {           /* bitvector_left_shift */
        int n = 1 + rnd() % 6; bitvector_t b; bitvector_alloc(&b, 32 * n);
        for (int i = 0; i < n; i++) b.word[i] = (uint32_t)rnd();
        size_t sh = (t % 5 == 0) ? (rnd() % (n + 1)) * 32 : (t % 7 == 0 ? rnd() : rnd() % (32 * n + 10));
        printf("Goal chk2 (bitvector_left_shift_gen %d %lu %lu (rd ", n, sh, b.length); pw(b.word, n);
        bitvector_left_shift(&b, sh);
        printf(")) %d = Some (%lu, ", n, b.length); pw(b.word, n); printf("). Proof. vm_compute. reflexivity. Qed.\n");
        bitvector_dealloc(&b);
    }
    for (int t = 0; t < 40; t++) {           /* srtp_rdb_check / add_index */
        srtp_rdb_t r; r.window_start = (t % 3 == 0) ? 0xffffff00u + rnd() % 256 : rnd() % 1000;
        for (int i = 0; i < 4; i++) r.bitmask.v32[i] = (uint32_t)rnd();
        uint32_t idx = (t % 4 == 0) ? (uint32_t)rnd() : r.window_start + (uint32_t)(rnd() % 300) - 20;
        printf("Goal (let '(s, (w, v)) := srtp_rdb_check_gen %u %u (rd ", idx, r.window_start); pw(r.bitmask.v32, 4);
        printf(") in (s, w, map v (idx 4))) = (%d, %u, ", (int)srtp_rdb_check(&r, idx), r.window_start); pw(r.bitmask.v32, 4);
        printf("). Proof. vm_compute. reflexivity. Qed.\n");
        printf("Goal (match srtp_rdb_add_index_gen 4 %u %u (rd ", idx, r.window_start); pw(r.bitmask.v32, 4);
        int s = (int)srtp_rdb_add_index(&r, idx);
        printf(") with Some (s, (w, v)) => Some (s, w, map v (idx 4)) | None => None end) = Some (%d, %u, ", s, r.window_start); pw(r.bitmask.v32, 4);
        printf("). Proof. vm_compute. reflexivity. Qed.\n");
    }
    for (int t = 0; t < 40; t++) {           /* srtp_rdbx_check / add_index / estimate / set_roc_seq */
        int n = 2 + rnd() % 4; srtp_rdbx_t r; srtp_rdbx_init(&r, 32 * n);
        r.index = (t % 3 == 0) ? rnd() : rnd() % 200000;
        for (int i = 0; i < n; i++) r.bitmask.word[i] = (uint32_t)rnd();
        ssize_t d = (t % 2) ? (ssize_t)(rnd() % (32 * n + 40)) : -(ssize_t)(rnd() % (32 * n));
        printf("Goal (let '(s, (l, v)) := srtp_rdbx_check_gen (%ld) %lu (rd ", d, r.bitmask.length); pw(r.bitmask.word, n);
        printf(") in (s, l, map v (idx %d))) = (%d, %lu, ", n, (int)srtp_rdbx_check(&r, d), r.bitmask.length); pw(r.bitmask.word, n);
        printf("). Proof. vm_compute. reflexivity. Qed.\n");
        uint16_t sq = (uint16_t)rnd(); srtp_xtd_seq_num_t g = 0;
        ssize_t e = srtp_rdbx_estimate_index(&r, &g, sq);
        printf("Goal srtp_rdbx_estimate_index_gen %u %lu 0 = ((%ld), (%lu, %lu)). Proof. vm_compute. reflexivity. Qed.\n", sq, r.index, e, r.index, g);
        printf("Goal (match srtp_rdbx_add_index_gen %d (%ld) %lu %lu (rd ", n, d, r.index, r.bitmask.length); pw(r.bitmask.word, n);
        int s = (int)srtp_rdbx_add_index(&r, d);
        printf(") with Some (s, (i, l, v)) => Some (s, i, l, map v (idx %d)) | None => None end) = Some (%d, %lu, %lu, ", n, s, r.index, r.bitmask.length); pw(r.bitmask.word, n);
        printf("). Proof. vm_compute. reflexivity. Qed.\n");
        uint32_t roc = (t % 2) ? (uint32_t)(r.index >> 16) + rnd() % 3 : (uint32_t)rnd();
        printf("Goal (let '(s, (i, v, l)) := srtp_rdbx_set_roc_seq_gen %u %u %lu (rd ", roc, sq, r.index); pw(r.bitmask.word, n);
        printf(") %lu in (s, i, map v (idx %d), l)) = ", r.bitmask.length, n);
        s = (int)srtp_rdbx_set_roc_seq(&r, roc, sq);
        printf("(%d, %lu, ", s, r.index); pw(r.bitmask.word, n); printf(", %lu). Proof. vm_compute. reflexivity. Qed.\n", r.bitmask.length);
        printf("Goal srtp_rdbx_get_roc_gen %lu = (%u, %lu). Proof. vm_compute. reflexivity. Qed.\n", r.index, srtp_rdbx_get_roc(&r), r.index);
        srtp_rdbx_dealloc(&r);
    }
    return 0;
}
