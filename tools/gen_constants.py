#!/usr/bin/env python3
"""gen_constants.py <repo> <cbuild-dir> <out.v>

Regenerates coq/Constants.v from /repo's current working tree:
 * macros / enums / file-local statics: by compiling tools/constprobe.c, which
   #includes srtp.c, key.c and rdb.c themselves, with the configured include
   path, and running it;
 * literals that only occur inside function bodies: by pattern over the source
   text.  If a pattern no longer matches (code rewritten), the pinned value is
   emitted and the name is listed in <out.v>.warn so that the check can say the
   constant is no longer tied to the source by this generator (the
   correspondence runs still exercise it).
"""
import os, re, subprocess, sys

def main():
    repo, cbuild, out = sys.argv[1:4]
    here = os.path.dirname(os.path.abspath(__file__))
    exe = out + ".probe"
    inc = ["-I", cbuild, "-I", f"{repo}/include", "-I", f"{repo}/crypto/include"]
    # crypto back end of this build (config.h written by the repo's cmake lists): decides which cipher types exist
    cfgh = open(os.path.join(cbuild, "config.h")).read()
    have_openssl = re.search(r"^#define\s+OPENSSL\b", cfgh, re.M) is not None
    have_gcm = re.search(r"^#define\s+GCM\b", cfgh, re.M) is not None
    cmd = ["gcc", "-O0", "-w", "-DHAVE_CONFIG_H",
           f'-DSRTP_C="{repo}/srtp/srtp.c"', f'-DKEY_C="{repo}/crypto/kernel/key.c"',
           f'-DRDB_C="{repo}/crypto/replay/rdb.c"',
           *inc, f"{here}/constprobe.c", f"{cbuild}/libsrtp3.a",
           *(["-lcrypto"] if have_openssl else []),
           "-fsanitize=address,undefined", "-o", exe]
    r = subprocess.run(cmd, capture_output=True, text=True)
    if r.returncode != 0:
        sys.stderr.write(r.stderr)
        sys.exit(2)
    txt = subprocess.run([exe], capture_output=True, text=True, check=True).stdout
    os.unlink(exe)

    def src(p):
        with open(os.path.join(repo, p)) as f:
            return f.read()
    srtp = src("srtp/srtp.c"); rdb = src("crypto/replay/rdb.c")
    hmac = src("crypto/hash/hmac.c"); icm = src("crypto/cipher/aes_icm.c")
    gcm = src("crypto/cipher/aes_gcm_ossl.c")
    pats = [
        ("key_limit_init_c", srtp, r"srtp_key_limit_set\([^,]+,\s*(0x[0-9a-fA-F]+|\d+)", 0xffffffffffff),
        ("rtcp_ceiling_c", rdb, r"window_start\s*>=\s*(0x[0-9a-fA-F]+|\d+)\)\s*\{\s*return srtp_err_status_key_expired", 0x7fffffff),
        ("window_min_c", srtp, r"window_size\s*<\s*(0x[0-9a-fA-F]+|\d+)", 64),
        ("window_lim_c", srtp, r"window_size\s*>=\s*(0x[0-9a-fA-F]+|\d+)", 0x8000),
        ("window_default_c", srtp, r"else\s*\{\s*err = srtp_rdbx_init\(&srtp->rtp_rdbx,\s*(0x[0-9a-fA-F]+|\d+)\)", 128),
        ("xtn_keystream_size_c", srtp, r"uint8_t keystream\[(\d+)\]", 257),
        ("hmac_max_key_c", hmac, r"srtp_hmac_alloc.*?if \(key_len > (\d+)\)", 20),
        ("hmac_max_out_c", hmac, r"srtp_hmac_alloc.*?if \(out_len > (\d+)\)", 20),
        ("icm_max_blocks_c", icm, r"htons\(c->counter\.v16\[7\]\)\)\s*>\s*(0x[0-9a-fA-F]+|\d+)", 0xffff),
        ("kdf_keylen_small_c", srtp, r"kdf_keylen\s*=\s*(\d+),", 30),
        ("kdf_keylen_big_c", srtp, r"kdf_keylen = (\d+); /\* AES-CTR", 46),
        ("GCM_AUTH_TAG_LEN_c", gcm, r"#define GCM_AUTH_TAG_LEN (\d+)", 16),
        ("GCM_AUTH_TAG_LEN_8_c", gcm, r"#define GCM_AUTH_TAG_LEN_8 (\d+)", 8),
    ]
    txt += f"Definition cfg_openssl_c : bool := {'true' if have_openssl else 'false'}.\n"
    txt += f"Definition cfg_gcm_c : bool := {'true' if have_gcm else 'false'}.\n"
    warn = []
    for name, text, pat, pinned in pats:
        m = re.search(pat, text, re.S)
        if m:
            v = int(m.group(1).rstrip("uUlL"), 0)
        else:
            v = pinned
            warn.append(name)
        txt += f"Definition {name} : Z := {v}.\n"
    with open(out, "w") as f:
        f.write(txt)
    with open(out + ".warn", "w") as f:
        f.write("\n".join(warn))

if __name__ == "__main__":
    main()
