#!/usr/bin/env python3
"""gen_kernels.py <repo> <cbuild-dir> <out.v>

A small C-to-Gallina translator for the integer kernels of libsrtp (no loops, no pointers other than
out-parameters and `struct->field` accesses through a parameter):

    crypto/kernel/key.c     srtp_key_limit_update, srtp_key_limit_set
    crypto/replay/rdbx.c    srtp_index_guess, srtp_rdbx_estimate_index
    crypto/replay/rdb.c     srtp_rdb_increment
    srtp/srtp.c             srtp_estimate_index

Source of truth: clang's JSON AST of the file in /repo's working tree (macros expanded, every implicit integer
conversion explicit, every expression typed).  Each C function becomes one Gallina function

    <name>_gen : <value parameters and initial contents of every object reachable through a pointer parameter> ->
                 (return value, final contents of those objects)

in "let" style: an assignment rebinds the variable, an `if` duplicates the continuation, `return` ends it.
Integer semantics: every arithmetic result and every integral cast is wrapped to the C type clang assigned to it
(unsigned: mod 2^n; signed: two's complement reinterpretation, i.e. the -fwrapv reading of signed overflow,
which none of these functions relies on).  Unsupported constructs raise, and the check then reports that the
generated kernels could not be produced (the hand-written model and the differential correspondence remain)."""
import json, os, subprocess, sys

TYPES = {  # desugared C type -> (bits, signed)
    "unsigned long": (64, False), "long": (64, True), "unsigned long long": (64, False), "long long": (64, True),
    "unsigned int": (32, False), "int": (32, True), "unsigned short": (16, False), "short": (16, True),
    "unsigned char": (8, False), "signed char": (8, True), "char": (8, True), "_Bool": (1, False), "bool": (1, False),
}

class Unsupported(Exception):
    pass

def ctype(n):
    t = n.get("type", {})
    q = t.get("desugaredQualType", t.get("qualType", ""))
    q = q.replace("const ", "").replace("volatile ", "").strip()
    if q.startswith("enum "):
        return (32, False)
    if q in TYPES:
        return TYPES[q]
    if q and "*" not in q and "struct" not in q and "[" not in q and "(" not in q:
        return (32, False)          # typedef of an anonymous enum (srtp_err_status_t, srtp_key_event_t, ...)
    raise Unsupported("type " + q)

def wrap(e, ty):
    bits, signed = ty
    if bits == 1:
        return f"(if ({e}) =? 0 then 0 else 1)"
    return f"(s{bits} ({e}))" if signed else f"(u{bits} ({e}))"

class Fn:
    def __init__(self, decl, enums):
        self.d = decl; self.enums = enums
        self.name = decl["name"]
        self.params = [p for p in decl.get("inner", []) if p["kind"] == "ParmVarDecl"]
        self.body = [p for p in decl.get("inner", []) if p["kind"] == "CompoundStmt"][0]
        self.objs = []            # state variables reachable through pointer parameters, in order of first use
        self.scan(self.body)

    # ---- names
    def lval_name(self, n):
        """Gallina variable standing for an lvalue"""
        k = n["kind"]
        if k == "ParenExpr":
            return self.lval_name(n["inner"][0])
        if k == "DeclRefExpr":
            return n["referencedDecl"]["name"]
        if k == "MemberExpr":
            base = n["inner"][0]
            while base["kind"] in ("ImplicitCastExpr", "ParenExpr"):
                base = base["inner"][0]
            if base["kind"] == "DeclRefExpr":
                return base["referencedDecl"]["name"] + "_" + n["name"]
            if base["kind"] == "MemberExpr":
                return self.lval_name(base) + "_" + n["name"]
            if base["kind"] == "UnaryOperator" and base.get("opcode") == "*":
                return self.lval_name(base) + "_" + n["name"]
            raise Unsupported("member base " + base["kind"])
        if k == "UnaryOperator" and n.get("opcode") == "*":
            inner = n["inner"][0]
            while inner["kind"] in ("ImplicitCastExpr", "ParenExpr"):
                inner = inner["inner"][0]
            if inner["kind"] == "DeclRefExpr":
                return inner["referencedDecl"]["name"] + "_v"
            raise Unsupported("deref of " + inner["kind"])
        raise Unsupported("lvalue " + k)

    def scan(self, n):
        k = n.get("kind")
        if k in ("MemberExpr",) or (k == "UnaryOperator" and n.get("opcode") == "*"):
            try:
                nm = self.lval_name(n)
                if nm not in self.objs:
                    self.objs.append(nm)
                return
            except Unsupported:
                pass
        for c in n.get("inner", []):
            if isinstance(c, dict):
                self.scan(c)

    # ---- expressions (rvalues), returning Gallina text of an unbounded Z already in the range of its C type
    def expr(self, n):
        k = n["kind"]
        if k in ("ParenExpr", "ConstantExpr"):
            return self.expr(n["inner"][0])
        if k == "IntegerLiteral":
            return str(int(n["value"]))
        if k == "CharacterLiteral":
            return str(int(n["value"]))
        if k == "DeclRefExpr":
            rd = n["referencedDecl"]
            if rd["kind"] == "EnumConstantDecl":
                if rd["name"] not in self.enums:
                    raise Unsupported("enum constant " + rd["name"])
                return str(self.enums[rd["name"]])
            return rd["name"]
        if k == "MemberExpr" or (k == "UnaryOperator" and n.get("opcode") == "*"):
            return self.lval_name(n)
        if k in ("ImplicitCastExpr", "CStyleCastExpr"):
            ck = n.get("castKind")
            inner = n["inner"][0]
            if ck in ("LValueToRValue", "NoOp"):
                return self.expr(inner)
            if ck in ("IntegralCast", "IntegralToBoolean", "BooleanToSignedIntegral"):
                return wrap(self.expr(inner), ctype(n))
            raise Unsupported("cast " + str(ck))
        if k == "UnaryOperator":
            op = n["opcode"]
            e = self.expr(n["inner"][0])
            if op == "-": return wrap(f"- ({e})", ctype(n))
            if op == "!": return f"(if ({e}) =? 0 then 1 else 0)"
            if op == "~": return wrap(f"- ({e}) - 1", ctype(n))
            if op == "+": return e
            raise Unsupported("unary " + op)
        if k == "BinaryOperator":
            op = n["opcode"]
            a, b = self.expr(n["inner"][0]), self.expr(n["inner"][1])
            ty = ctype(n)
            if op in ("+", "-", "*"):
                return wrap(f"({a}) {op} ({b})", ty)
            if op == "/": return wrap(f"Z.quot ({a}) ({b})", ty)
            if op == "%": return wrap(f"Z.rem ({a}) ({b})", ty)
            if op == "<<": return wrap(f"Z.shiftl ({a}) ({b})", ty)
            if op == ">>": return wrap(f"Z.shiftr ({a}) ({b})", ty)
            if op == "&": return wrap(f"Z.land ({a}) ({b})", ty)
            if op == "|": return wrap(f"Z.lor ({a}) ({b})", ty)
            if op == "^": return wrap(f"Z.lxor ({a}) ({b})", ty)
            cmp = {"<": "<?", "<=": "<=?", ">": ">?", ">=": ">=?", "==": "=?"}
            if op in cmp:
                return f"(if ({a}) {cmp[op]} ({b}) then 1 else 0)"
            if op == "!=": return f"(if ({a}) =? ({b}) then 0 else 1)"
            if op == "&&": return f"(if ({a}) =? 0 then 0 else if ({b}) =? 0 then 0 else 1)"
            if op == "||": return f"(if ({a}) =? 0 then (if ({b}) =? 0 then 0 else 1) else 1)"
            raise Unsupported("binary " + op)
        if k == "ConditionalOperator":
            c, a, b = (self.expr(x) for x in n["inner"])
            return f"(if ({c}) =? 0 then {b} else {a})"
        if k == "UnaryExprOrTypeTraitExpr":
            if n.get("name") != "sizeof":
                raise Unsupported("trait " + str(n.get("name")))
            at = n.get("argType", {})
            q = at.get("desugaredQualType", at.get("qualType", "")).replace("const ", "").strip()
            if q not in TYPES:
                raise Unsupported("sizeof " + q)
            return str(TYPES[q][0] // 8)
        if k == "CallExpr":
            return self.call(n)
        raise Unsupported("expression " + k)

    def call(self, n):
        raise Unsupported("call")

    # ---- statements, continuation style.  `rest` is a thunk producing the text of what follows.
    def result(self, retval):
        outs = ", ".join(self.objs)
        if self.void:
            return f"({outs})" if len(self.objs) != 1 else outs
        return f"({retval}, ({outs}))" if len(self.objs) != 1 else f"({retval}, {outs})"

    def stmts(self, lst, rest):
        if not lst:
            return rest()
        n, tail = lst[0], lst[1:]
        k = n["kind"]
        cont = lambda: self.stmts(tail, rest)
        if k == "CompoundStmt":
            return self.stmts(n.get("inner", []) + tail, rest)
        if k == "NullStmt":
            return cont()
        if k == "DeclStmt":
            out = ""
            for v in n.get("inner", []):
                if v["kind"] != "VarDecl":
                    raise Unsupported("decl " + v["kind"])
                init = [c for c in v.get("inner", []) if isinstance(c, dict) and "kind" in c and c["kind"] not in ("FullComment",)]
                e = self.expr(init[0]) if init else "0"
                out += f"let {v['name']} := {e} in\n"
            return out + cont()
        if k == "ReturnStmt":
            inner = n.get("inner", [])
            return self.result(self.expr(inner[0]) if inner else None)
        if k == "IfStmt":
            parts = n["inner"]
            c = self.expr(parts[0])
            then = parts[1]
            els = parts[2] if len(parts) > 2 else None
            a = self.stmts([then] + tail, rest)
            b = self.stmts(([els] if els else []) + tail, rest)
            return f"if negb (({c}) =? 0) then (\n{a})\nelse (\n{b})"
        if k == "BinaryOperator" and n["opcode"] == "=":
            nm = self.lval_name(n["inner"][0])
            return f"let {nm} := {self.expr(n['inner'][1])} in\n" + cont()
        if k == "CompoundAssignOperator":
            nm = self.lval_name(n["inner"][0])
            op = n["opcode"][:-1]
            ty = ctype(n["inner"][0])
            cty = n.get("computeResultType", {})
            cq = cty.get("desugaredQualType", cty.get("qualType"))
            comp = TYPES.get(cq, ty)
            rhs = self.expr(n["inner"][1])
            sym = {"+": "+", "-": "-", "*": "*"}.get(op)
            if sym is None:
                raise Unsupported("compound " + op)
            return f"let {nm} := {wrap(wrap(f'({wrap(nm, comp)}) {sym} ({rhs})', comp), ty)} in\n" + cont()
        if k == "UnaryOperator" and n["opcode"] in ("++", "--"):
            nm = self.lval_name(n["inner"][0])
            ty = ctype(n["inner"][0])
            return f"let {nm} := {wrap(nm + (' + 1' if n['opcode'] == '++' else ' - 1'), ty)} in\n" + cont()
        if k in ("ImplicitCastExpr", "CStyleCastExpr", "ParenExpr") :
            return self.stmts([n["inner"][0]] + tail, rest)
        raise Unsupported("statement " + k)

    def gallina(self):
        rt = self.d["type"]["qualType"].split("(")[0].strip()
        self.void = rt == "void"
        args = []
        for p in self.params:
            q = p["type"].get("desugaredQualType", p["type"]["qualType"])
            if "*" in q:
                continue           # pointer parameters are represented by the objects reached through them
            args.append(p["name"])
        args += self.objs
        body = self.stmts([self.body], lambda: self.result("0" if not self.void else None))
        sig = " ".join(f"({a} : Z)" for a in args)
        return f"Definition {self.name}_gen {sig} :=\n{body}.\n"


def load_functions(repo, cbuild, relpath):
    cmd = ["clang", "-U__SSE2__", "-U__SSSE3__", "-Xclang", "-ast-dump=json", "-fsyntax-only", "-w", "-DHAVE_CONFIG_H",
           "-I", cbuild, "-I", f"{repo}/include", "-I", f"{repo}/crypto/include", os.path.join(repo, relpath)]
    r = subprocess.run(cmd, capture_output=True, text=True)
    if r.returncode != 0:
        raise SystemExit("clang failed on " + relpath + "\n" + r.stderr[-2000:])
    tu = json.loads(r.stdout)
    enums, fns = {}, {}
    def walk(n):
        if n.get("kind") == "EnumDecl":
            val = -1
            for c in n.get("inner", []):
                if c.get("kind") == "EnumConstantDecl":
                    init = [x for x in c.get("inner", []) if isinstance(x, dict)]
                    if init:
                        v = find_value(init[0])
                        val = v if v is not None else val + 1
                    else:
                        val += 1
                    enums[c["name"]] = val
        if n.get("kind") == "FunctionDecl" and any(c.get("kind") == "CompoundStmt" for c in n.get("inner", [])):
            fns[n["name"]] = n
        for c in n.get("inner", []):
            if isinstance(c, dict):
                walk(c)
    def find_value(n):
        if "value" in n and n.get("kind") in ("ConstantExpr", "IntegerLiteral"):
            try:
                return int(n["value"])
            except ValueError:
                return None
        for c in n.get("inner", []):
            v = find_value(c)
            if v is not None:
                return v
        return None
    walk(tu)
    return enums, fns


WANTED = [
    ("crypto/kernel/key.c", ["srtp_key_limit_update", "srtp_key_limit_set"]),
    ("crypto/replay/rdbx.c", ["srtp_index_guess"]),
    ("crypto/replay/rdb.c", ["srtp_rdb_increment"]),
    ("srtp/srtp.c", ["srtp_estimate_index"]),
]

HEADER = """(* KernelGen.v — GENERATED by tools/gen_kernels.py from the clang AST of /repo's working tree.  Do not edit.
   One Gallina function per C function, integer semantics by explicit wrap at every typed node. *)
From Coq Require Import ZArith Bool.
Local Open Scope Z_scope.
Definition u8 (x : Z) := x mod 256.
Definition u16 (x : Z) := x mod 65536.
Definition u32 (x : Z) := x mod 4294967296.
Definition u64 (x : Z) := x mod 18446744073709551616.
Definition s32 (x : Z) := (x + 2147483648) mod 4294967296 - 2147483648.
Definition s64 (x : Z) := (x + 9223372036854775808) mod 18446744073709551616 - 9223372036854775808.
Definition s16 (x : Z) := (x + 32768) mod 65536 - 32768.
Definition s8 (x : Z) := (x + 128) mod 256 - 128.

"""

def main():
    repo, cbuild, out = sys.argv[1:4]
    txt = HEADER
    failed = []
    for rel, names in WANTED:
        enums, fns = load_functions(repo, cbuild, rel)
        for nm in names:
            if nm not in fns:
                failed.append(f"{nm}: not found in {rel}"); continue
            try:
                f = Fn(fns[nm], enums)
                txt += f"(* {rel}: {nm} *)\n" + f.gallina() + "\n"
            except Unsupported as e:
                failed.append(f"{nm}: unsupported {e}")
    with open(out, "w") as f:
        f.write(txt)
    with open(out + ".failed", "w") as f:
        f.write("\n".join(failed))
    if failed:
        sys.stderr.write("\n".join(failed) + "\n")

if __name__ == "__main__":
    main()
