#!/usr/bin/env python3
"""gen_kernels.py <repo> <cbuild-dir> <out.v>

A small C-to-Gallina translator for the integer kernels of libsrtp:

    crypto/kernel/key.c       srtp_key_limit_update, srtp_key_limit_set
    crypto/replay/rdbx.c      srtp_index_guess, srtp_index_advance, srtp_rdbx_estimate_index, srtp_rdbx_check,
                              srtp_rdbx_add_index, srtp_rdbx_set_roc_seq, srtp_rdbx_get_roc, srtp_rdbx_get_packet_index
    crypto/replay/rdb.c       srtp_rdb_increment, srtp_rdb_check, srtp_rdb_add_index
    crypto/math/datatypes.c   v128_left_shift, bitvector_set_to_zero, bitvector_left_shift
    srtp/srtp.c               srtp_estimate_index

Source of truth: clang's JSON AST of the file in /repo's working tree (macros expanded, every implicit integer
conversion explicit, every expression typed; compiled with -U__SSE2__ -U__SSSE3__, i.e. the portable C paths).
Each C function becomes one Gallina function

    <name>_gen : [fuel : nat ->] <value parameters> -> <initial contents of every object reachable through a pointer
                 parameter> -> (return value, final contents of those objects)          [wrapped in option if `fuel`]

in "let" style: an assignment rebinds the variable, an `if` duplicates the continuation, `return` ends it.

Integer semantics: every arithmetic result and every integral cast is wrapped to the C type clang assigned to it
(unsigned: mod 2^n; signed: two's complement reinterpretation, i.e. the -fwrapv reading of signed overflow,
which none of these functions relies on).

Objects.  A scalar object reached through a pointer parameter (`p->f`, `p->s.f`, `(&p->s)->f`, `*p`) is one Gallina
variable of type Z named after its access path (p_f, p_s_f, p_v).  An array object (an array member `p->v32[i]`, or
the array a pointer MEMBER points to, `p->word[i]`) is one Gallina variable of type Z -> Z: read = application,
write = `upd`.  Pointer VALUES are never computed, compared or stored (Unsupported), so a pointer member always
denotes the same array.  Members of a union: using two different members of the same union object in one function
(directly or through a callee) raises Unsupported (no type punning).
What the translation assumes and does not check (the equivalence theorems state these as hypotheses where they
matter): objects named by different access paths do not overlap (no aliasing between pointer parameters); every
array access is in bounds; variables are initialised before they are read (an uninitialised local is bound to 0);
shift counts are smaller than the width of the shifted type.

Calls.  A call of a function translated earlier in the same run passes the values of the objects the callee reaches
through its pointer parameters and rebinds them from the callee's result.  A pointer argument must be `&lvalue`
(`&x->field`, `&local`) or a pointer parameter / pointer member passed on.  A full expression may contain at most one
call, not under && || ?:, and must not otherwise mention an object the callee writes.
`memset(array, c, n)` on an array of 4-byte words is the header function memset_u32 (little-endian target checked).

Loops.  `for`/`while` become the fuel-based combinator `iter` of the header over the tuple of variables assigned in
the loop; running out of fuel yields None.  Functions with loops (or calling such) take a first parameter
`fuel : nat`, shared by all their loops and callees, and return an option.  break/continue/return inside a loop,
nested loops (also through a callee), calls in a loop condition, do-while, goto, switch are Unsupported.

Unsupported constructs raise, and the tool then lists the function in <out.v>.failed (never a silent
mistranslation)."""
import json, os, subprocess, sys, tempfile

TYPES = {  # desugared C type -> (bits, signed)
    "unsigned long": (64, False), "long": (64, True), "unsigned long long": (64, False), "long long": (64, True),
    "unsigned int": (32, False), "int": (32, True), "unsigned short": (16, False), "short": (16, True),
    "unsigned char": (8, False), "signed char": (8, True), "char": (8, True), "_Bool": (1, False), "bool": (1, False),
}

class Unsupported(Exception):
    pass

def qual(t):
    q = t.get("desugaredQualType", t.get("qualType", ""))
    return q.replace("const ", "").replace("volatile ", "").replace(" const", "").replace("*const", "*").strip()

def ctype(n):
    q = qual(n.get("type", {}))
    if q.startswith("enum "):
        return (32, False)
    if q in TYPES:
        return TYPES[q]
    if q and "*" not in q and "struct" not in q and "union" not in q and "[" not in q and "(" not in q:
        return (32, False)          # typedef of an anonymous enum (srtp_err_status_t, srtp_key_event_t, ...)
    raise Unsupported("type " + q)

def wrap(e, ty):
    bits, signed = ty
    if bits == 1:
        return f"(if ({e}) =? 0 then 0 else 1)"
    return f"(s{bits} ({e}))" if signed else f"(u{bits} ({e}))"

def kids(n):
    return [c for c in n.get("inner", []) if isinstance(c, dict) and "kind" in c]

def peel(n):
    """strip parentheses and value-preserving casts"""
    while n["kind"] == "ParenExpr" or (n["kind"] in ("ImplicitCastExpr", "CStyleCastExpr")
                                       and n.get("castKind") in ("LValueToRValue", "NoOp")):
        n = n["inner"][0]
    return n

def tuple_of(names):
    return names[0] if len(names) == 1 else "(" + ", ".join(names) + ")"

def pattern_of(names):
    return names[0] if len(names) == 1 else "'(" + ", ".join(names) + ")"


class Fn:
    def __init__(self, decl, unit):
        self.d = decl; self.unit = unit; self.enums = unit.enums
        self.name = decl["name"]
        self.params = [p for p in decl.get("inner", []) if p["kind"] == "ParmVarDecl"]
        self.body = [p for p in decl.get("inner", []) if p["kind"] == "CompoundStmt"][0]
        self.objs = []            # state variables reachable through pointer parameters, in order of first use
        self.kind = {}            # object name -> "scalar" | "array"
        self.unions = {}          # path of a union object -> set of its members used
        self.paths = {}           # Gallina name -> access path
        self.written = set()      # objects (re)bound by an assignment, memset or callee
        self.partial = False      # has loops or calls a function that has: takes fuel, returns an option
        self.loop_depth = 0
        self.ncall = 0
        self.pre = []             # pending call bindings of the full expression being translated: (open, close)
        self.pre_calls = []       # (call node, names the callee writes)
        self.guard = 0            # > 0 while translating a conditionally evaluated operand
        self.decls = {}           # id -> declaration of every parameter and local variable
        self.valparams = []
        for p in self.params:
            self.decls[p["id"]] = p
            if "*" in qual(p["type"]):
                continue
            ctype(p)              # by-value struct/union parameters are not supported
            self.valparams.append(p["name"])
        self.check_scopes(self.body, [set(p["name"] for p in self.params)])
        self.localnames = set(d["name"] for d in self.decls.values() if "*" not in qual(d["type"]))
        self.scan(self.body)
        rt = self.d["type"]["qualType"].split("(")[0].strip()
        self.void = rt == "void"
        self.text = self.gallina()
        self.check_unions()

    # ---- declarations: a let-bound variable must not shadow a variable of an enclosing scope
    def check_scopes(self, n, scopes):
        k = n.get("kind")
        if k in ("CompoundStmt", "ForStmt", "WhileStmt", "IfStmt"):
            scopes = scopes + [set()]
        if k == "VarDecl":
            if n.get("storageClass") in ("static", "extern"):
                raise Unsupported("static variable " + n["name"])
            if any(n["name"] in s for s in scopes[:-1]):
                raise Unsupported("declaration shadows " + n["name"])
            scopes[-1].add(n["name"])
            self.decls[n["id"]] = n
        if k in ("DoStmt", "GotoStmt", "SwitchStmt", "LabelStmt"):
            raise Unsupported("statement " + k)
        for c in kids(n):
            self.check_scopes(c, scopes)

    # ---- lvalues.  An object is identified by its access path (root variable, member, ..., "*" for a dereference);
    #      its Gallina name is the path joined by "_" ("*" written "v"); two paths with one name are refused.
    def nm(self, path):
        s = "_".join("v" if c == "*" else c for c in path)
        if self.paths.setdefault(s, path) != path:
            raise Unsupported("two objects named " + s)
        return s

    def member(self, n):
        base = n["inner"][0]
        pre = self.ptr_path(base) if n.get("isArrow") else self.obj_path(base)
        if n.get("referencedMemberDecl") in self.unit.union_fields:
            self.unions.setdefault(pre, set()).add(n["name"])
        return pre + (n["name"],)

    def obj_path(self, n):
        """path of the object an lvalue expression denotes"""
        k = n["kind"]
        if k == "ParenExpr":
            return self.obj_path(n["inner"][0])
        if k == "MemberExpr":
            return self.member(n)
        if k == "UnaryOperator" and n.get("opcode") == "*":
            return self.ptr_path(n["inner"][0])
        if k == "DeclRefExpr":
            rd = n["referencedDecl"]
            if rd.get("id") not in self.decls or "*" in qual(n["type"]):
                raise Unsupported("variable " + rd.get("name", "?"))
            return (rd["name"],)
        raise Unsupported("lvalue " + k)

    def ptr_path(self, n):
        """path of the object a pointer-valued expression points to"""
        n = peel(n)
        k = n["kind"]
        if k == "DeclRefExpr":
            rd = n["referencedDecl"]
            if rd.get("id") not in self.decls or rd["kind"] != "ParmVarDecl" or "*" not in qual(n["type"]):
                raise Unsupported("pointer variable " + rd.get("name", "?"))
            return (rd["name"],)
        if k == "MemberExpr":
            if "*" not in qual(n["type"]):
                raise Unsupported("member used as a pointer")
            return self.member(n)
        if k == "UnaryOperator" and n.get("opcode") == "&":
            return self.obj_path(n["inner"][0])
        raise Unsupported("pointer expression " + k)

    def deref_path(self, p):
        """path of the scalar object *p: p is &lvalue or a pointer parameter"""
        q = peel(p)
        if q["kind"] == "UnaryOperator" and q.get("opcode") == "&":
            return self.obj_path(q["inner"][0])
        if q["kind"] != "DeclRefExpr":
            raise Unsupported("dereference of " + q["kind"])
        return self.ptr_path(q) + ("*",)

    def place(self, n):
        """(Gallina variable, index node or None) of an lvalue of integer type"""
        k = n["kind"]
        if k == "ParenExpr":
            return self.place(n["inner"][0])
        ctype(n)
        if k in ("DeclRefExpr", "MemberExpr"):
            return self.nm(self.obj_path(n)), None
        if k == "UnaryOperator" and n.get("opcode") == "*":
            return self.nm(self.deref_path(n["inner"][0])), None
        if k == "ArraySubscriptExpr":
            base, idx = n["inner"][0], n["inner"][1]
            while base["kind"] == "ParenExpr":
                base = base["inner"][0]
            if base["kind"] == "ImplicitCastExpr" and base.get("castKind") == "ArrayToPointerDecay":
                arr = base["inner"][0]
                while arr["kind"] == "ParenExpr":
                    arr = arr["inner"][0]
                if arr["kind"] != "MemberExpr":
                    raise Unsupported("array " + arr["kind"])
                return self.nm(self.member(arr)), idx
            b = peel(base)
            if b["kind"] == "MemberExpr":
                return self.nm(self.ptr_path(b)), idx
            raise Unsupported("subscript of " + b["kind"])
        raise Unsupported("lvalue " + k)

    def register(self, nm, kind):
        if len(self.paths[nm]) == 1:
            return                # a local variable or a value parameter
        if nm in self.localnames:
            raise Unsupported("object name clashes with a variable: " + nm)
        if self.kind.setdefault(nm, kind) != kind:
            raise Unsupported("object used both as scalar and as array: " + nm)
        if nm not in self.objs:
            self.objs.append(nm)

    # ---- calls
    def callee(self, n):
        f = peel(n["inner"][0])
        while f["kind"] == "ImplicitCastExpr":
            f = f["inner"][0]
        if f["kind"] != "DeclRefExpr" or f["referencedDecl"]["kind"] != "FunctionDecl":
            raise Unsupported("indirect call")
        return f["referencedDecl"]["name"]

    def call_map(self, n):
        """for a call of a translated function: (callee, value arguments, {callee object -> caller variable})"""
        nm = self.callee(n)
        g = self.unit.registry.get(nm)
        if g is None:
            raise Unsupported("call of " + nm)
        args = n["inner"][1:]
        if len(args) != len(g.params):
            raise Unsupported("argument count of " + nm)
        vals, m = [], {}
        for p, a in zip(g.params, args):
            if "*" not in qual(p["type"]):
                vals.append(a)
                continue
            for o in g.objs:
                path = g.paths[o]
                if path[0] != p["name"]:
                    continue
                m[o] = self.nm(self.deref_path(a) if path[1:] == ("*",) else self.ptr_path(a) + path[1:])
            for u, mem in g.unions.items():
                if u[0] == p["name"]:
                    self.unions.setdefault(self.ptr_path(a) + u[1:], set()).update(mem)
        if set(m) != set(g.objs) or len(set(m.values())) != len(m):
            raise Unsupported("aliased or unmapped objects in call of " + nm)
        return g, vals, m

    def memset_args(self, n):
        args = n["inner"][1:]
        dst = args[0]
        while dst["kind"] in ("ImplicitCastExpr", "CStyleCastExpr", "ParenExpr") and \
                (dst["kind"] == "ParenExpr" or dst.get("castKind") in ("BitCast", "NoOp")):
            dst = dst["inner"][0]
        q = qual(peel(dst)["type"])
        if TYPES.get(self.unit.resolve(q.rstrip("* ").strip())) != (32, False) or q.count("*") != 1:
            raise Unsupported("memset of " + q)
        if not self.unit.little_endian():
            raise Unsupported("memset on a big-endian target")
        return self.nm(self.ptr_path(dst)), args[1], args[2]

    def scan(self, n):
        k = n.get("kind")
        if k in ("ForStmt", "WhileStmt"):
            self.partial = True
        if k == "CallExpr":
            try:
                if self.callee(n) == "memset":
                    arr, c, cnt = self.memset_args(n)
                    self.register(arr, "array")
                    self.scan(c); self.scan(cnt)
                    return
                g, vals, m = self.call_map(n)
                self.partial = self.partial or g.partial
                for o in g.objs:
                    self.register(m[o], g.kind[o])
                for v in vals:
                    self.scan(v)
                return
            except Unsupported:
                pass
        if k in ("MemberExpr", "ArraySubscriptExpr") or (k == "UnaryOperator" and n.get("opcode") == "*"):
            try:
                nm, idx = self.place(n)
                self.register(nm, "scalar" if idx is None else "array")
                if idx is not None:
                    self.scan(idx)
                return
            except Unsupported:
                pass
        for c in kids(n):
            self.scan(c)

    def check_unions(self):
        for u, mem in self.unions.items():
            if len(mem) > 1:
                raise Unsupported(f"union {'_'.join(u)} used through different members: " + ", ".join(sorted(mem)))

    # ---- expressions (rvalues), returning Gallina text of an unbounded Z already in the range of its C type
    def read(self, n):
        nm, idx = self.place(n)
        return nm if idx is None else f"({nm} ({self.expr(idx)}))"

    def expr(self, n):
        k = n["kind"]
        if k in ("ParenExpr", "ConstantExpr"):
            return self.expr(n["inner"][0])
        if k == "IntegerLiteral":
            return str(int(n["value"]))
        if k == "CharacterLiteral":
            return str(int(n["value"]))
        if k == "DeclRefExpr":
            rd = n["referencedDecl"]
            if rd["kind"] == "EnumConstantDecl":
                if rd["name"] not in self.enums:
                    raise Unsupported("enum constant " + rd["name"])
                return str(self.enums[rd["name"]])
            return self.read(n)
        if k in ("MemberExpr", "ArraySubscriptExpr") or (k == "UnaryOperator" and n.get("opcode") == "*"):
            return self.read(n)
        if k in ("ImplicitCastExpr", "CStyleCastExpr"):
            ck = n.get("castKind")
            inner = n["inner"][0]
            if ck in ("LValueToRValue", "NoOp"):
                return self.expr(inner)
            if ck in ("IntegralCast", "IntegralToBoolean", "BooleanToSignedIntegral"):
                return wrap(self.expr(inner), ctype(n))
            raise Unsupported("cast " + str(ck))
        if k == "UnaryOperator":
            op = n["opcode"]
            if op not in ("-", "!", "~", "+"):
                raise Unsupported("unary " + op)
            e = self.expr(n["inner"][0])
            if op == "-": return wrap(f"- ({e})", ctype(n))
            if op == "!": return f"(if ({e}) =? 0 then 1 else 0)"
            if op == "~": return wrap(f"- ({e}) - 1", ctype(n))
            return e
        if k == "BinaryOperator":
            op = n["opcode"]
            if op in ("=", ","):
                raise Unsupported("binary " + op + " inside an expression")
            a = self.expr(n["inner"][0])
            if op in ("&&", "||"):
                self.guard += 1
            b = self.expr(n["inner"][1])
            if op in ("&&", "||"):
                self.guard -= 1
            ty = ctype(n)
            if op in ("+", "-", "*"):
                return wrap(f"({a}) {op} ({b})", ty)
            if op == "/": return wrap(f"Z.quot ({a}) ({b})", ty)
            if op == "%": return wrap(f"Z.rem ({a}) ({b})", ty)
            if op == "<<": return wrap(f"Z.shiftl ({a}) ({b})", ty)
            if op == ">>": return wrap(f"Z.shiftr ({a}) ({b})", ty)
            if op == "&": return wrap(f"Z.land ({a}) ({b})", ty)
            if op == "|": return wrap(f"Z.lor ({a}) ({b})", ty)
            if op == "^": return wrap(f"Z.lxor ({a}) ({b})", ty)
            cmp = {"<": "<?", "<=": "<=?", ">": ">?", ">=": ">=?", "==": "=?"}
            if op in cmp:
                return f"(if ({a}) {cmp[op]} ({b}) then 1 else 0)"
            if op == "!=": return f"(if ({a}) =? ({b}) then 0 else 1)"
            if op == "&&": return f"(if ({a}) =? 0 then 0 else if ({b}) =? 0 then 0 else 1)"
            if op == "||": return f"(if ({a}) =? 0 then (if ({b}) =? 0 then 0 else 1) else 1)"
            raise Unsupported("binary " + op)
        if k == "ConditionalOperator":
            c = self.expr(n["inner"][0])
            self.guard += 1
            a, b = self.expr(n["inner"][1]), self.expr(n["inner"][2])
            self.guard -= 1
            return f"(if ({c}) =? 0 then {b} else {a})"
        if k == "UnaryExprOrTypeTraitExpr":
            if n.get("name") != "sizeof":
                raise Unsupported("trait " + str(n.get("name")))
            at = n.get("argType")
            if not at:
                raise Unsupported("sizeof of an expression")
            q = qual(at)
            if q in TYPES:
                return str(max(TYPES[q][0] // 8, 1))
            return str(self.unit.sizeof(at["qualType"]))
        if k == "CallExpr":
            return self.call(n, True)
        raise Unsupported("expression " + k)

    def call(self, n, want_value):
        """hoist a call: its binding goes in front of the statement being translated; the text returned is the
        variable holding the returned value"""
        if self.guard:
            raise Unsupported("call in a conditionally evaluated operand")
        if self.pre:
            raise Unsupported("two calls in one full expression")
        if self.callee(n) == "memset":
            if want_value:
                raise Unsupported("value of memset")
            arr, c, cnt = self.memset_args(n)
            self.pre.append((f"let {arr} := memset_u32 {arr} ({self.expr(c)}) ({self.expr(cnt)}) in\n", ""))
            self.pre_calls.append((n, {arr}))
            self.written.add(arr)
            return None
        g, vals, m = self.call_map(n)
        if want_value and g.void:
            raise Unsupported("value of a void function")
        args = " ".join(f"({self.expr(v)})" for v in vals)
        if self.pre:
            raise Unsupported("two calls in one full expression")
        outs = [m[o] for o in g.objs]
        self.ncall += 1
        tmp = f"call_{self.ncall}"
        if tmp in self.localnames or tmp in self.objs:
            raise Unsupported("name clash " + tmp)
        if g.void:
            if not outs:
                return None
            pat = outs
        else:
            pat = [tmp] + ([tuple_of(outs)] if outs else [])
        app = " ".join(x for x in (g.name + "_gen", "fuel" if g.partial else "", args, " ".join(outs)) if x)
        if g.partial and self.loop_depth:
            raise Unsupported("call of a function with loops inside a loop")
        if g.partial:
            self.pre.append((f"match {app} with\n| None => None\n| Some {tuple_of(pat)} =>\n", "\nend"))
        else:
            self.pre.append((f"let {pattern_of(pat)} := {app} in\n", ""))
        wr = set(m[o] for o in g.written)
        self.written |= set(w for w in wr if len(self.paths[w]) > 1)
        self.pre_calls.append((n, wr))
        return tmp

    def mentions(self, n, skip, names):
        if n is skip:
            return False
        if n.get("kind") in ("DeclRefExpr", "MemberExpr", "ArraySubscriptExpr") or \
                (n.get("kind") == "UnaryOperator" and n.get("opcode") == "*"):
            try:
                if self.place(n)[0] in names:
                    return True
            except Unsupported:
                pass
        return any(self.mentions(c, skip, names) for c in kids(n))

    def full(self, nodes, tr):
        """translate the full expression(s) `nodes` with `tr` (which may hoist one call); returns a function that
        wraps the text of the statement and its continuation into the call binding"""
        assert not self.pre
        out = tr()
        pre, calls = self.pre, self.pre_calls
        self.pre, self.pre_calls = [], []
        for cn, wr in calls:
            for n in nodes:
                if self.mentions(n, cn, wr):
                    raise Unsupported("object written by a call is used in the same full expression")
        def wrapper(text):
            for o, c in reversed(pre):
                text = o + text + c
            return text
        return out, wrapper

    # ---- statements, continuation style.  `rest` is a thunk producing the text of what follows.
    def result(self, retval):
        if self.loop_depth:
            raise Unsupported("return inside a loop")
        outs = ", ".join(self.objs)
        if self.void:
            r = f"({outs})" if len(self.objs) != 1 else outs
        elif not self.objs:
            r = retval
        else:
            r = f"({retval}, ({outs}))" if len(self.objs) != 1 else f"({retval}, {outs})"
        return f"Some ({r})" if self.partial else r

    def store(self, lhs, value):
        """text of the rebinding `lhs = value`; value is a function of the text of the old contents"""
        nm, idx = self.place(lhs)
        if len(self.paths[nm]) > 1:
            self.written.add(nm)
        if idx is None:
            return f"let {nm} := {value(nm)} in\n"
        i = self.expr(idx)
        return f"let {nm} := upd {nm} ({i}) ({value(f'({nm} ({i}))')}) in\n"

    def assigned(self, n, out, inner_decls):
        """variables (re)bound by the statements of a loop, in order of first occurrence"""
        k = n.get("kind")
        def add(nm):
            if nm not in out:
                out.append(nm)
        if k == "VarDecl":
            inner_decls.add(n["name"])
        if (k == "BinaryOperator" and n["opcode"] == "=") or k == "CompoundAssignOperator" or \
                (k == "UnaryOperator" and n["opcode"] in ("++", "--")):
            add(self.place(n["inner"][0])[0])
        if k == "CallExpr":
            if self.callee(n) == "memset":
                add(self.memset_args(n)[0])
            else:
                g, vals, m = self.call_map(n)
                for o in g.objs:
                    add(m[o])
        for c in kids(n):
            self.assigned(c, out, inner_decls)

    def loop(self, cond, body, inc, cont):
        if cond is None or "kind" not in cond:
            raise Unsupported("loop without a condition")
        if self.loop_depth:
            raise Unsupported("nested loop")
        state, inner = [], set()
        for part in (cond, body, inc):
            if part is not None:
                self.assigned(part, state, inner)
        state = [s for s in state if s not in inner]
        if not state:
            raise Unsupported("loop that changes nothing")
        ty = " * ".join("(Z -> Z)" if self.kind.get(s) == "array" else "Z" for s in state)
        c, w = self.full([cond], lambda: self.expr(cond))
        self.loop_depth += 1
        if w("") != "":
            raise Unsupported("call in a loop condition")
        b = self.stmts([body] + ([inc] if inc is not None else []), lambda: tuple_of(state))
        self.loop_depth -= 1
        pat = pattern_of(state)
        return (f"match @iter ({ty}) fuel (fun {pat} => negb (({c}) =? 0)) (fun {pat} =>\n{b}) {tuple_of(state)} with\n"
                f"| None => None\n| Some {tuple_of(state)} =>\n{cont()}\nend")

    def stmts(self, lst, rest):
        if not lst:
            return rest()
        n, tail = lst[0], lst[1:]
        k = n["kind"]
        cont = lambda: self.stmts(tail, rest)
        if k == "CompoundStmt":
            return self.stmts(kids(n) + tail, rest)
        if k == "NullStmt":
            return cont()
        if k == "DeclStmt":
            vs = n.get("inner", [])
            if not vs:
                return cont()
            v = vs[0]
            if v["kind"] != "VarDecl":
                raise Unsupported("decl " + v["kind"])
            ctype(v)
            later = dict(n); later["inner"] = vs[1:]
            init = [c for c in kids(v) if c["kind"] not in ("FullComment",)]
            if not init:
                return f"let {v['name']} := 0 in\n" + self.stmts([later] + tail, rest)
            e, w = self.full([init[0]], lambda: self.expr(init[0]))
            return w(f"let {v['name']} := {e} in\n" + self.stmts([later] + tail, rest))
        if k == "ReturnStmt":
            inner = kids(n)
            if not inner:
                return self.result(None)
            e, w = self.full([inner[0]], lambda: self.expr(inner[0]))
            return w(self.result(e))
        if k == "IfStmt":
            parts = n["inner"]
            if len(parts) > 3 or any("kind" not in p for p in parts):
                raise Unsupported("if with a declaration")
            c, w = self.full([parts[0]], lambda: self.expr(parts[0]))
            then = parts[1]
            els = parts[2] if len(parts) > 2 else None
            a = self.stmts([then] + tail, rest)
            b = self.stmts(([els] if els else []) + tail, rest)
            return w(f"if negb (({c}) =? 0) then (\n{a})\nelse (\n{b})")
        if k == "ForStmt":
            init, condvar, cond, inc, body = n["inner"]
            if "kind" in condvar:
                raise Unsupported("for with a condition variable")
            loop = {"kind": "#loop", "cond": cond, "inc": inc if "kind" in inc else None, "body": body}
            return self.stmts(([init] if "kind" in init else []) + [loop] + tail, rest)
        if k == "WhileStmt":
            if len(n["inner"]) != 2:
                raise Unsupported("while with a condition variable")
            return self.loop(n["inner"][0], n["inner"][1], None, cont)
        if k == "#loop":
            return self.loop(n["cond"], n["body"], n["inc"], cont)
        if k == "BinaryOperator" and n["opcode"] == ",":
            return self.stmts([n["inner"][0], n["inner"][1]] + tail, rest)
        if k == "BinaryOperator" and n["opcode"] == "=":
            lhs, rhs = n["inner"]
            def tr():
                r = self.expr(rhs)
                return self.store(lhs, lambda old: r)
            t, w = self.full([lhs, rhs], tr)
            return w(t + cont())
        if k == "CompoundAssignOperator":
            lhs, rhs = n["inner"]
            op = n["opcode"][:-1]
            ty = ctype(lhs)
            cty = n.get("computeResultType", {})
            comp = TYPES.get(qual(cty), ty)
            sym = {"+": "({a}) + ({b})", "-": "({a}) - ({b})", "*": "({a}) * ({b})",
                   "&": "Z.land ({a}) ({b})", "|": "Z.lor ({a}) ({b})", "^": "Z.lxor ({a}) ({b})",
                   "<<": "Z.shiftl ({a}) ({b})", ">>": "Z.shiftr ({a}) ({b})"}.get(op)
            if sym is None:
                raise Unsupported("compound " + op)
            def tr():
                r = self.expr(rhs)
                return self.store(lhs, lambda old: wrap(wrap(sym.format(a=wrap(old, comp), b=r), comp), ty))
            t, w = self.full([lhs, rhs], tr)
            return w(t + cont())
        if k == "UnaryOperator" and n["opcode"] in ("++", "--"):
            lhs = n["inner"][0]
            ty = ctype(lhs)
            d = " + 1" if n["opcode"] == "++" else " - 1"
            t, w = self.full([lhs], lambda: self.store(lhs, lambda old: wrap(old + d, ty)))
            return w(t + cont())
        if k == "CallExpr":
            t, w = self.full([n], lambda: self.call(n, False))
            return w(cont())
        if k in ("ImplicitCastExpr", "CStyleCastExpr", "ParenExpr"):
            return self.stmts([n["inner"][0]] + tail, rest)
        raise Unsupported("statement " + k)

    def gallina(self):
        ptrs = set(p["name"] for p in self.params if "*" in qual(p["type"]))
        for o in self.objs:
            if self.paths[o][0] not in ptrs:
                raise Unsupported("object " + o + " is not reached through a pointer parameter")
        body = self.stmts([self.body], lambda: self.result("0" if not self.void else None))
        sig = (["(fuel : nat)"] if self.partial else []) + [f"({a} : Z)" for a in self.valparams] + \
              [f"({o} : {'Z -> Z' if self.kind[o] == 'array' else 'Z'})" for o in self.objs]
        return f"Definition {self.name}_gen {' '.join(sig)} :=\n{body}.\n"


class Unit:
    """one translation unit: clang's AST of a C file of the repository"""
    registry = {}                 # every function translated so far in this run, by name
    _le = None

    def __init__(self, repo, cbuild, relpath):
        self.repo, self.cbuild, self.rel = repo, cbuild, relpath
        self.sizes = {}
        self.typedefs = {}
        self.enums, self.fns, self.union_fields = self.load(os.path.join(repo, relpath))

    def clang(self, path, extra=()):
        cmd = ["clang", "-U__SSE2__", "-U__SSSE3__", *extra, "-fsyntax-only", "-w", "-DHAVE_CONFIG_H",
               "-I", self.cbuild, "-I", f"{self.repo}/include", "-I", f"{self.repo}/crypto/include",
               "-I", os.path.dirname(os.path.join(self.repo, self.rel)), path]
        r = subprocess.run(cmd, capture_output=True, text=True)
        if r.returncode != 0:
            raise SystemExit("clang failed on " + path + "\n" + r.stderr[-2000:])
        return r.stdout

    def load(self, path):
        tu = json.loads(self.clang(path, ["-Xclang", "-ast-dump=json"]))
        enums, fns, union_fields = {}, {}, set()
        def walk(n):
            if n.get("kind") == "EnumDecl":
                val = -1
                for c in n.get("inner", []):
                    if c.get("kind") == "EnumConstantDecl":
                        init = [x for x in c.get("inner", []) if isinstance(x, dict)]
                        if init:
                            v = find_value(init[0])
                            val = v if v is not None else val + 1
                        else:
                            val += 1
                        enums[c["name"]] = val
            if n.get("kind") == "TypedefDecl":
                self.typedefs[n["name"]] = qual(n["type"])
            if n.get("kind") == "RecordDecl" and n.get("tagUsed") == "union":
                for c in n.get("inner", []):
                    if c.get("kind") == "FieldDecl":
                        union_fields.add(c["id"])
            if n.get("kind") == "FunctionDecl" and any(c.get("kind") == "CompoundStmt" for c in n.get("inner", [])):
                fns[n["name"]] = n
            for c in n.get("inner", []):
                if isinstance(c, dict):
                    walk(c)
        def find_value(n):
            if "value" in n and n.get("kind") in ("ConstantExpr", "IntegerLiteral"):
                try:
                    return int(n["value"])
                except ValueError:
                    return None
            for c in n.get("inner", []):
                v = find_value(c)
                if v is not None:
                    return v
            return None
        walk(tu)
        return enums, fns, union_fields

    def resolve(self, q):
        seen = set()
        while q in self.typedefs and q not in seen:
            seen.add(q)
            q = self.typedefs[q]
        return q

    def sizeof(self, qualtype):
        """sizeof of a struct/union/typedef'd type: asked from clang (an enum constant appended to the unit)"""
        if qualtype not in self.sizes:
            with tempfile.NamedTemporaryFile("w", suffix=".c", delete=False) as f:
                f.write(f'#include "{os.path.join(self.repo, self.rel)}"\nenum {{ gen_kernels_sizeof = sizeof({qualtype}) }};\n')
            try:
                enums = self.load(f.name)[0]
            finally:
                os.unlink(f.name)
            if "gen_kernels_sizeof" not in enums:
                raise Unsupported("sizeof " + qualtype)
            self.sizes[qualtype] = enums["gen_kernels_sizeof"]
        return self.sizes[qualtype]

    def little_endian(self):
        if Unit._le is None:
            r = subprocess.run(["clang", "-dM", "-E", "-x", "c", "/dev/null"], capture_output=True, text=True)
            Unit._le = "#define __BYTE_ORDER__ __ORDER_LITTLE_ENDIAN__" in r.stdout
        return Unit._le


# in dependency order: a callee must be translated before its callers
WANTED = [
    ("crypto/kernel/key.c", ["srtp_key_limit_update", "srtp_key_limit_set"]),
    ("crypto/replay/rdbx.c", ["srtp_index_guess"]),
    ("crypto/replay/rdb.c", ["srtp_rdb_increment"]),
    ("srtp/srtp.c", ["srtp_estimate_index"]),
    ("crypto/replay/rdbx.c", ["srtp_index_advance", "srtp_rdbx_estimate_index", "srtp_rdbx_check",
                              "srtp_rdbx_get_roc", "srtp_rdbx_get_packet_index"]),
    ("crypto/replay/rdb.c", ["srtp_rdb_check"]),
    ("crypto/math/datatypes.c", ["v128_left_shift", "bitvector_set_to_zero", "bitvector_left_shift"]),
    ("crypto/replay/rdb.c", ["srtp_rdb_add_index"]),
    ("crypto/replay/rdbx.c", ["srtp_rdbx_add_index", "srtp_rdbx_set_roc_seq"]),
]

HEADER = """(* KernelGen.v — GENERATED by tools/gen_kernels.py from the clang AST of /repo's working tree.  Do not edit.
   One Gallina function per C function, integer semantics by explicit wrap at every typed node. *)
From Coq Require Import ZArith Bool.
Local Open Scope Z_scope.
Definition u8 (x : Z) := x mod 256.
Definition u16 (x : Z) := x mod 65536.
Definition u32 (x : Z) := x mod 4294967296.
Definition u64 (x : Z) := x mod 18446744073709551616.
Definition s32 (x : Z) := (x + 2147483648) mod 4294967296 - 2147483648.
Definition s64 (x : Z) := (x + 9223372036854775808) mod 18446744073709551616 - 9223372036854775808.
Definition s16 (x : Z) := (x + 32768) mod 65536 - 32768.
Definition s8 (x : Z) := (x + 128) mod 256 - 128.

(* an array object is a function from indices to elements; a[i] = v *)
Definition upd (a : Z -> Z) (i v : Z) : Z -> Z := fun j => if j =? i then v else a j.
(* memset(a, c, n) on an array of 4-byte words, little-endian: the first n bytes become (unsigned char)c
   (n / 4 whole words, then the low n mod 4 bytes of the next word) *)
Definition memset_u32 (a : Z -> Z) (c n : Z) : Z -> Z :=
  let b := c mod 256 in
  let w := b + 256 * b + 65536 * b + 16777216 * b in
  let k := 2 ^ (8 * (n mod 4)) in
  fun j => if (0 <=? j) && (j <? n / 4) then w else if j =? n / 4 then w mod k + (a j / k) * k else a j.
(* while (cond s) s = body s;   None = out of fuel *)
Fixpoint iter {S : Type} (fuel : nat) (cond : S -> bool) (body : S -> S) (s : S) : option S :=
  if cond s then match fuel with O => None | S f => iter f cond body (body s) end else Some s.

"""

def main():
    repo, cbuild, out = sys.argv[1:4]
    txt = HEADER
    failed = []
    Unit.registry = {}
    units = {}
    for rel, names in WANTED:
        if rel not in units:
            units[rel] = Unit(repo, cbuild, rel)
        unit = units[rel]
        for nm in names:
            if nm not in unit.fns:
                failed.append(f"{nm}: not found in {rel}"); continue
            try:
                f = Fn(unit.fns[nm], unit)
                txt += f"(* {rel}: {nm} *)\n" + f.text + "\n"
                Unit.registry[nm] = f
            except Unsupported as e:
                failed.append(f"{nm}: unsupported {e}")
    with open(out, "w") as f:
        f.write(txt)
    with open(out + ".failed", "w") as f:
        f.write("\n".join(failed))
    if failed:
        sys.stderr.write("\n".join(failed) + "\n")

if __name__ == "__main__":
    main()
